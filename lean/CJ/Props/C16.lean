import CJ.Lemmas.DtlsListener
import CJ.Lemmas.Heartbeat
import CJ.Gen.C16Source
import CJ.Lemmas.DtlsDerive
import CJ.Lemmas.AcceptLoop
import CJ.Gen.C16AcceptLoop
import CJ.Drv.AcceptLoop
/-!
# C16 — DTLS sessions: same secret on both ends, right acceptor, faithful byte stream

Property theorems only.

* **Listener** (`CJ.DtlsListener`): every state reachable by *any* interleaving of the atomic steps of
  any number of acceptors and handshake goroutines.  That certificates verify exactly when both ends
  derived them from the same secret is the model's idealisation of ECDSA/x509/pion (checked
  empirically by the harness); the theorems say what the listener's own logic guarantees on top.
* **Byte stream** (`CJ.SctpConn`, `CJ.Heartbeat`): all message-size sequences × all read-size
  sequences, errors at any message boundary, heartbeats interleaved anywhere.
* The models mirror the *repaired* `hbConn` (queued messages are delivered before `closed` is
  reported; data returned together with an error is queued before the close).
* **Recorded finding.**  The heartbeat is in-band: an application message byte-equal to the heartbeat
  payload is swallowed by the receive filter.  The full statements are kept as `def …_full : Prop`,
  refuted by a concrete witness, and proved under the hypothesis that no application message equals
  the payload.
-/
namespace CJ.Props.C16

/-! ## listener -/
section listener
open CJ.DtlsListener

/-- every state reachable by any interleaving -/
def Reach (s : St) : Prop := ∃ ops : List Op, s = run ops

theorem reach_inv {s : St} (h : Reach s) : Inv s := by
  obtain ⟨ops, rfl⟩ := h
  exact inv_run ops {} inv_init

/-- **Delivered to the matching acceptor.**  Whatever the interleaving, a connection an acceptor has
taken from its channel carries the hello-random of the acceptor's own secret, its client certificate
was derived from that same secret, and it was sent on this acceptor's channel. -/
theorem delivered_to_matching_acceptor (s : St) (hr : Reach s) (a : Acc) (pc : APc) (c : Hs) (id : Id)
    (hpc : s.apc a = some pc) (hg : got pc = some c) (hid : s.accId a = some id) :
    s.hs c = some ⟨id, id, .delivered a⟩ := by
  obtain ⟨id', h1, h2⟩ := (reach_inv hr).r1 a c pc hpc hg
  rw [hid] at h2; cases h2; exact h1

/-- in particular for an `Accept` that has returned a connection -/
theorem accepted_connection_matches (s : St) (hr : Reach s) (a : Acc) (c : Hs) (id : Id)
    (hpc : s.apc a = some (.done (some c))) (hid : s.accId a = some id) :
    s.hs c = some ⟨id, id, .delivered a⟩ :=
  delivered_to_matching_acceptor s hr a _ c id hpc rfl hid

/-- **No cross delivery.**  A connection is taken by at most one acceptor … -/
theorem no_cross_delivery (s : St) (hr : Reach s) (a a' : Acc) (pc pc' : APc) (c : Hs)
    (h1 : s.apc a = some pc) (g1 : got pc = some c) (h2 : s.apc a' = some pc') (g2 : got pc' = some c) :
    a = a' := by
  obtain ⟨id, e1, _⟩ := (reach_inv hr).r1 a c pc h1 g1
  obtain ⟨id', e2, _⟩ := (reach_inv hr).r1 a' c pc' h2 g2
  rw [e1] at e2
  simp only [Option.some.injEq, HsSt.mk.injEq, HPc.delivered.injEq] at e2
  exact e2.2.2

/-- … and a connection waiting in a channel's buffer belongs to the secret of the acceptor that owns
the channel (so it can never reach an acceptor waiting for another secret) -/
theorem buffered_connection_matches (s : St) (hr : Reach s) (a : Acc) (c : Hs) (hb : s.buf a = some c) :
    ∃ id, s.accId a = some id ∧ s.hs c = some ⟨id, id, .delivered a⟩ := by
  obtain ⟨id, h1, h2⟩ := (reach_inv hr).b1 a c hb
  exact ⟨id, h2, h1⟩

/-- a handshake goroutine only ever holds the channel of an acceptor of its own hello-random's secret,
and only after the client certificate verified against that secret -/
theorem routed_only_to_same_secret (s : St) (hr : Reach s) (h : Hs) (rnd cert : Id) (ch : Acc)
    (hh : s.hs h = some ⟨rnd, cert, .send ch⟩ ∨ s.hs h = some ⟨rnd, cert, .delivered ch⟩) :
    cert = rnd ∧ s.accId ch = some rnd := by
  rcases hh with hh | hh
  · exact (reach_inv hr).s1 h rnd cert ch hh
  · exact (reach_inv hr).s2 h rnd cert ch hh

/-- **A duplicate secret is rejected without disturbing the first acceptor.**  While an acceptor `a`
holds the registration of a secret, the first step of any other acceptor `b` for the same secret fails
("seed already registered") and changes nothing but `b`'s own state: both maps, every channel buffer,
every other thread are exactly as before. -/
theorem duplicate_secret_rejected_without_disturbing (s : St) (hr : Reach s) (a b : Acc) (id : Id) (pc : APc)
    (ha : s.apc a = some pc) (hh : holdsCert pc = true) (hida : s.accId a = some id)
    (hb : s.apc b = some .start) (hidb : s.accId b = some id) :
    step s (.accStep b) = { s with apc := s.apc.set b .failed } := by
  have hc := (reach_inv hr).c2 a id pc hida ha hh
  simp only [step, accStep, hb, hidb, Map.has, hc, Option.isSome_some, if_true]

/-- **Cancel (or any return) leaves nothing registered.**  An acceptor that has returned — with a
connection, cancelled, or rejected — owns no entry of either map. -/
theorem cancel_leaves_nothing (s : St) (hr : Reach s) (a : Acc) (pc : APc) (hpc : s.apc a = some pc)
    (hret : (∃ r, pc = .done r) ∨ pc = .failed) :
    ∀ id, s.certs id ≠ some a ∧ s.chans id ≠ some a := by
  intro id
  have hi := reach_inv hr
  constructor
  · intro hc
    obtain ⟨_, pc', hp', hh⟩ := hi.c1 id a hc
    rw [hpc] at hp'; cases hp'
    rcases hret with ⟨r, rfl⟩ | rfl <;> simp [holdsCert] at hh
  · intro hc
    obtain ⟨_, pc', hp', hh⟩ := hi.h1 id a hc
    rw [hpc] at hp'; cases hp'
    rcases hret with ⟨r, rfl⟩ | rfl <;> simp [holdsChan] at hh

/-- a cancelled acceptor returns after its two deferred removals, and its secret is free again -/
theorem cancel_returns_and_frees (s : St) (hr : Reach s) (a : Acc) (id : Id)
    (hpc : s.apc a = some .waiting) (hid : s.accId a = some id) :
    let s' := run [.accCancel a, .accStep a, .accStep a] s
    s'.apc a = some (.done none) ∧ s'.certs id = none ∧ s'.chans id = none := by
  simp [run, step, accStep, hpc, hid, Map.set, Map.del]

/-- reachability is closed under further operations -/
theorem reach_run {s : St} (hr : Reach s) (ops : List Op) : Reach (run ops s) := by
  obtain ⟨ops0, rfl⟩ := hr
  exact ⟨ops0 ++ ops, by simp [run, List.foldl_append]⟩

/-- the program counter of a cancelled acceptor after `k` further steps of its own -/
def cancelPc : Nat → APc
  | 0 => .rmChan none
  | 1 => .rmCert none
  | _ => .done none

/-- the number of steps acceptor `a` takes in an operation list -/
def stepsOf (a : Acc) : List Op → Nat
  | [] => 0
  | .accStep b :: ops => (if b = a then 1 else 0) + stepsOf a ops
  | _ :: ops => stepsOf a ops

/-- a cancelled acceptor only moves by its own steps, whatever everybody else does -/
theorem step_cancelPc (t : St) (a : Acc) (id : Id) (k : Nat) (op : Op)
    (hpc : t.apc a = some (cancelPc k)) (hid : t.accId a = some id) :
    (step t op).apc a = some (cancelPc (k + stepsOf a [op])) ∧ (step t op).accId a = some id := by
  have hhas : t.apc.has a = true := by simp [Map.has, hpc]
  cases op with
  | accStart b id' =>
    simp only [step, stepsOf, Nat.add_zero]
    by_cases hb : b = a
    · subst hb; simp [hhas, hpc, hid]
    · split
      · exact ⟨hpc, hid⟩
      · simp [Map.set, Ne.symm hb, hpc, hid]
  | accStep b =>
    by_cases hb : b = a
    · subst hb
      simp only [step, stepsOf, if_true, Nat.add_zero]
      match k, hpc with
      | 0, hpc => simp [accStep, cancelPc] at hpc ⊢; simp [hpc, hid, Map.set]
      | 1, hpc => simp [accStep, cancelPc] at hpc ⊢; simp [hpc, hid, Map.set]
      | k + 2, hpc => simp [accStep, cancelPc] at hpc ⊢; simp [hpc, hid]
    · have hne : a ≠ b := Ne.symm hb
      simp only [step, stepsOf, hb, if_false, Nat.add_zero]
      unfold accStep
      split <;> (try split) <;> simp [Map.set, hne, hpc, hid]
  | accCancel b =>
    simp only [step, stepsOf, Nat.add_zero]
    by_cases hb : b = a
    · subst hb
      have : t.apc b ≠ some .waiting := by rw [hpc]; cases k with
        | zero => simp [cancelPc]
        | succ k => cases k <;> simp [cancelPc]
      split
      · rename_i h; exact absurd h this
      · exact ⟨hpc, hid⟩
    · split
      · simp [Map.set, Ne.symm hb, hpc, hid]
      · exact ⟨hpc, hid⟩
  | hsStart h rnd cert =>
    simp only [step, stepsOf, Nat.add_zero]
    split <;> exact ⟨hpc, hid⟩
  | hsStep h =>
    simp only [step, stepsOf, Nat.add_zero]
    unfold hsStep
    split <;> (try split) <;> exact ⟨hpc, hid⟩
  | hsTimeout h =>
    simp only [step, stepsOf, Nat.add_zero]
    split <;> exact ⟨hpc, hid⟩

theorem run_cancelPc (ops : List Op) (t : St) (a : Acc) (id : Id) (k : Nat)
    (hpc : t.apc a = some (cancelPc k)) (hid : t.accId a = some id) :
    (run ops t).apc a = some (cancelPc (k + stepsOf a ops)) := by
  induction ops generalizing t k with
  | nil => simpa [run, stepsOf] using hpc
  | cons op ops ih =>
    obtain ⟨h1, h2⟩ := step_cancelPc t a id k op hpc hid
    have := ih (step t op) (k + stepsOf a [op]) h1 h2
    have hs : stepsOf a (op :: ops) = stepsOf a [op] + stepsOf a ops := by
      cases op <;> simp [stepsOf]
    rw [hs, ← Nat.add_assoc]
    exact this

/-- **A cancelled `Accept` returns and leaves nothing registered, under any interleaving.**  From any
reachable state in which acceptor `a` sits in its `select`: once its context is cancelled, whatever all
other acceptors and handshake goroutines do in between (any operation list), as soon as `a` itself has
taken two steps (its two deferred removals) it has returned `ctx.Err()`, and it owns no entry of either
map. -/
theorem cancelled_accept_returns (s : St) (hr : Reach s) (a : Acc) (id : Id)
    (hpc : s.apc a = some .waiting) (hid : s.accId a = some id)
    (ops : List Op) (h2 : 2 ≤ stepsOf a ops) :
    let s' := run (.accCancel a :: ops) s
    s'.apc a = some (.done none) ∧ ∀ id', s'.certs id' ≠ some a ∧ s'.chans id' ≠ some a := by
  intro s'
  have h0 : (step s (.accCancel a)).apc a = some (cancelPc 0) ∧ (step s (.accCancel a)).accId a = some id := by
    simp [step, hpc, Map.set, cancelPc, hid]
  have hrun := run_cancelPc ops (step s (.accCancel a)) a id 0 h0.1 h0.2
  have hdone : s'.apc a = some (.done none) := by
    show (run ops (step s (.accCancel a))).apc a = _
    rw [hrun]
    have : ∃ m, 0 + stepsOf a ops = m + 2 := ⟨stepsOf a ops - 2, by omega⟩
    obtain ⟨m, hm⟩ := this
    rw [hm]; rfl
  refine ⟨hdone, ?_⟩
  have hr' : Reach s' := reach_run hr (.accCancel a :: ops)
  exact cancel_leaves_nothing s' hr' a _ hdone (Or.inl ⟨none, rfl⟩)

/-- **Cancel racing a delivered connection.**  When a connection sits in the channel of a waiting
acceptor and its context is cancelled at the same moment, Go's `select` may take either case.  Both
ways the acceptor returns after its two deferred removals and its secret is free again; the receive
branch returns exactly the buffered connection. -/
theorem select_either_way_frees (s : St) (a : Acc) (id : Id) (c : Hs)
    (hpc : s.apc a = some .waiting) (hid : s.accId a = some id) (hb : s.buf a = some c) :
    (let s' := run [.accStep a, .accStep a, .accStep a] s
     s'.apc a = some (.done (some c)) ∧ s'.certs id = none ∧ s'.chans id = none) ∧
    (let s' := run [.accCancel a, .accStep a, .accStep a] s
     s'.apc a = some (.done none) ∧ s'.certs id = none ∧ s'.chans id = none) := by
  constructor
  · simp [run, step, accStep, hpc, hid, hb, Map.set, Map.del]
  · simp [run, step, accStep, hpc, hid, Map.set, Map.del]

/-- **Both maps are empty when every `Accept` has returned** (or has not registered yet), whatever
happened before: deliveries, cancellations, duplicates, failed handshakes, in any order. -/
theorem maps_empty_when_all_returned (s : St) (hr : Reach s)
    (hall : ∀ a pc, s.apc a = some pc → holdsCert pc = false) :
    ∀ id, s.certs id = none ∧ s.chans id = none := by
  intro id
  have hi := reach_inv hr
  constructor
  · cases hc : s.certs id with
    | none => rfl
    | some a =>
      obtain ⟨_, pc, hp, hh⟩ := hi.c1 id a hc
      rw [hall a pc hp] at hh; cases hh
  · cases hc : s.chans id with
    | none => rfl
    | some a =>
      obtain ⟨_, pc, hp, hh⟩ := hi.h1 id a hc
      have : holdsCert pc = true := by cases pc <;> simp_all [holdsChan, holdsCert]
      rw [hall a pc hp] at this; cases this

/-- at most one acceptor per secret is registered at any time -/
theorem one_registration_per_secret (s : St) (hr : Reach s) (a b : Acc) (id : Id) (pa pb : APc)
    (ha : s.apc a = some pa) (hb : s.apc b = some pb) (hia : s.accId a = some id) (hib : s.accId b = some id)
    (hha : holdsCert pa = true) (hhb : holdsCert pb = true) : a = b := by
  have hi := reach_inv hr
  have h1 := hi.c2 a id pa hia ha hha
  have h2 := hi.c2 b id pb hib hb hhb
  rw [h1] at h2; cases h2; rfl

/-! non-vacuity: two sessions with different secrets, handshakes arriving in the opposite order, plus
a duplicate and a client that uses an unregistered secret -/

def demoOps : List Op :=
  [.accStart 0 10, .accStart 1 11, .accStep 0, .accStep 1, .accStep 0, .accStep 1,   -- both registered
   .accStart 2 10, .accStep 2,                                                   -- duplicate of secret 10
   .hsStart 5 11 11, .hsStart 6 10 10, .hsStart 7 12 12,
   .hsStep 5, .hsStep 6, .hsStep 7, .hsStep 5, .hsStep 6, .hsStep 7,
   .hsStep 5, .hsStep 6, .hsStep 5, .hsStep 6,
   .accStep 0, .accStep 1, .accStep 0, .accStep 1, .accStep 0, .accStep 1]

example : (run demoOps).apc 0 = some (.done (some 6)) ∧ (run demoOps).apc 1 = some (.done (some 5)) ∧
    (run demoOps).apc 2 = some .failed ∧ ((run demoOps).hs 7).map (·.pc) = some .dropped ∧
    (run demoOps).certs 10 = none ∧ (run demoOps).chans 11 = none := by
  decide

end listener

/-! ## byte stream -/
section stream
open CJ.SctpConn

/-- **Reads return the concatenation of the peer's messages**: for every script of messages that fit
`maxMessageSize` (with or without errors attached) and every sequence of read-buffer sizes (0, 1, …,
beyond `maxMessageSize`), the bytes handed out are a prefix of the concatenation of the messages — no
loss, no duplication, no reordering … -/
theorem read_is_concatenation (maxMsg : Nat) (s : Script) (sizes : List Nat) (hf : Fits maxMsg s) :
    datas (reads maxMsg s sizes) <+: flat s := by
  have h := (run_spec maxMsg sizes {} s hf (by simp)).1
  simp only [pending, List.drop_nil, List.nil_append] at h
  unfold reads
  rw [← h, List.append_assoc]
  exact List.prefix_append _ _

/-- … and everything arrives: once the reader has made enough non-empty reads (one per byte and per
message suffices), it has received exactly the concatenation -/
theorem read_complete (maxMsg : Nat) (s : Script) (sizes : List Nat) (hf : Fits maxMsg s)
    (hpos : ∀ m ∈ sizes, 0 < m) (hlen : (flat s).length + s.items.length ≤ sizes.length) :
    datas (reads maxMsg s sizes) = flat s := by
  have h := (run_spec maxMsg sizes {} s hf (by simp)).1
  have hm := run_mu maxMsg sizes {} s hf (by simp) hpos
  have hmu0 : mu {} s = (flat s).length + s.items.length := by simp [mu, pending]
  have hz : mu (run maxMsg {} s sizes).2.1 (run maxMsg {} s sizes).2.2 = 0 := by
    rcases hm with hm | hm
    · omega
    · exact hm
  simp only [mu, Nat.add_eq_zero_iff, List.length_eq_zero_iff] at hz
  simp only [pending, List.drop_nil, List.nil_append] at h
  unfold reads
  rw [← h]
  simp only [pending] at hz
  rw [hz.1.1, hz.1.2]; simp

/-- **A stream error is reported only after the data that came with it.**  Whenever a `Read` returns
an error, nothing is pending: the bytes handed out so far are exactly the bytes of all messages
obtained from the stream so far (a prefix `pre` of the script), including the message the error came
with. -/
theorem error_after_its_data (maxMsg : Nat) (s : Script) (sizes : List Nat) (hf : Fits maxMsg s)
    (d : Bytes) (e : Err) (hlast : (reads maxMsg s sizes).getLast? = some (d, some e)) :
    ∃ pre, s.items = pre ++ (run maxMsg {} s sizes).2.2.items ∧
      datas (reads maxMsg s sizes) = (pre.map (·.data)).flatten := by
  obtain ⟨h1, _, ⟨pre, h3⟩, h4⟩ := run_spec maxMsg sizes {} s hf (by simp)
  have hp := h4 d e hlast
  refine ⟨pre, h3, ?_⟩
  rw [hp, List.append_nil] at h1
  simp only [pending, List.drop_nil, List.nil_append] at h1
  unfold reads
  have : flat s = (pre.map (·.data)).flatten ++ flat (run maxMsg {} s sizes).2.2 := by
    simp only [flat]; rw [h3]; simp
  rw [this] at h1
  exact List.append_cancel_right h1

/-- the errors a reader sees are errors of the stream (of some scripted result, or the end error):
none is invented -/
theorem errors_come_from_stream (maxMsg : Nat) (s : Script) (sizes : List Nat) (hf : Fits maxMsg s)
    (d : Bytes) (e : Err) (hmem : (d, some e) ∈ reads maxMsg s sizes) :
    e = s.endErr ∨ ∃ it ∈ s.items, it.err = some e := by
  let Q : Err → Prop := fun e => e = s.endErr ∨ ∃ it ∈ s.items, it.err = some e
  suffices h : ∀ (sizes : List Nat) (st : RState) (s' : Script), Fits maxMsg s' → st.off ≤ st.buf.length →
      (∀ it ∈ s'.items, ∀ e, it.err = some e → Q e) → Q s'.endErr → (∀ e, st.err = some e → Q e) →
      ∀ d e, (d, some e) ∈ (run maxMsg st s' sizes).1 → Q e by
    exact h sizes {} s hf (by simp) (fun it hit e he => Or.inr ⟨it, hit, he⟩) (Or.inl rfl) (by simp) d e hmem
  intro sizes
  induction sizes with
  | nil => intro st s' _ _ _ _ _ d e h; simp [run] at h
  | cons m ms ih =>
    intro st s' hf' hw hs he hst d e h
    obtain ⟨q1, q2, q3⟩ := read_err_origin Q maxMsg st s' m hf' hs he hst
    obtain ⟨_, f2, f3, f4, _⟩ := read_spec maxMsg st s' m hf' hw
    simp only [run, List.mem_cons] at h
    rcases h with h | h
    · have : (read maxMsg st s' m).1.2 = some e := by rw [← h]
      exact q1 e this
    · exact ih _ _ f2 f3 q3 (by rw [f4]; exact he) q2 d e h

end stream

/-! ## heartbeats -/
section heartbeat
open CJ.SctpConn CJ.Heartbeat

/-- the payload the filter works with is never empty (so a failed stream read, `n = 0`, is never taken
for a heartbeat): `validate` replaces an unset or empty payload by the default one -/
theorem validate_nonempty (dflt : Bytes) (hd : dflt ≠ []) (conf : Option Bytes) : validate dflt conf ≠ [] := by
  cases conf with
  | none => exact hd
  | some hb =>
    simp only [validate]
    split
    · exact hd
    · assumption

/-- **Keep-alive heartbeats never surface**: no message that reaches the reader of `hbConn` is the
heartbeat payload, whatever the stream below delivers … -/
theorem heartbeats_never_surface (hb : Bytes) (cap : Nat) (items : List Item) :
    ∀ it ∈ queued hb cap items, it.data ≠ hb :=
  queued_ne_hb hb cap items

/-- … and what does reach the reader is a subsequence of the stream's messages, in order, without
errors attached and fitting the reader's buffer -/
theorem filter_passes_stream_messages (hb : Bytes) (cap : Nat) (items : List Item) :
    ((queued hb cap items).map (·.data)).Sublist (items.map (·.data)) ∧
    ∀ it ∈ queued hb cap items, it.err = none ∧ it.data.length ≤ cap :=
  ⟨queued_sublist hb cap items, queued_clean hb cap items⟩

/-- the reader's script behind the filter always fits -/
theorem filter_fits (hb : Bytes) (cap : Nat) (s : Script) : Fits cap (filter hb cap s) :=
  fun it hit => (queued_clean hb cap s.items it hit).2

/-- **Full statement (refuted on the code as it is — recorded finding).**  On the accepting side,
with keep-alive heartbeats interleaved anywhere among the application messages, every sequence of
reads returns a prefix of the concatenation of the *application* messages. -/
def server_read_is_concatenation_full : Prop :=
  ∀ (hb : Bytes) (cap : Nat) (ms : List (Option Bytes)) (sizes : List Nat),
    hb ≠ [] → hb.length ≤ cap → (∀ d ∈ app ms, d.length ≤ cap) →
    datas (reads cap (filter hb cap ⟨mk hb ms, .eof⟩) sizes) <+: (app ms).flatten

/-- **Full statement (refuted).**  … and with enough reads the reader has received exactly the
application bytes: no heartbeat surfaced as data and no data was taken for a heartbeat. -/
def heartbeats_never_surface_full : Prop :=
  ∀ (hb : Bytes) (cap : Nat) (ms : List (Option Bytes)) (sizes : List Nat),
    hb ≠ [] → hb.length ≤ cap → (∀ d ∈ app ms, d.length ≤ cap) →
    (∀ m ∈ sizes, 0 < m) → (app ms).flatten.length + ms.length ≤ sizes.length →
    datas (reads cap (filter hb cap ⟨mk hb ms, .eof⟩) sizes) = (app ms).flatten

/-- the witness: the peer writes `[2]`, then a message equal to the payload `[1]`, then `[3]` -/
def witnessHb : Bytes := [1]
def witnessMsgs : List (Option Bytes) := [some [2], some [1], some [3]]
def witnessSizes : List Nat := [2, 2, 2, 2, 2, 2]

theorem witness_delivered :
    datas (reads 4 (filter witnessHb 4 ⟨mk witnessHb witnessMsgs, .eof⟩) witnessSizes) = [2, 3] := by
  decide

theorem server_read_is_concatenation_full_refuted : ¬ server_read_is_concatenation_full := by
  intro h
  have := h witnessHb 4 witnessMsgs witnessSizes (by decide) (by decide) (by decide)
  rw [witness_delivered] at this
  revert this
  decide

theorem heartbeats_never_surface_full_refuted : ¬ heartbeats_never_surface_full := by
  intro h
  have := h witnessHb 4 witnessMsgs witnessSizes (by decide) (by decide) (by decide) (by decide) (by decide)
  rw [witness_delivered] at this
  revert this
  decide

/-- **Partial (exactly the excluded condition):** if no application message is byte-equal to the
heartbeat payload, the accepting side's reads return a prefix of the concatenation of the application
messages, for all message sizes, all read sizes and all positions of the heartbeats … -/
theorem server_read_is_concatenation_partial (hb : Bytes) (cap : Nat) (ms : List (Option Bytes))
    (sizes : List Nat) (hbfit : hb.length ≤ cap) (hfit : ∀ d ∈ app ms, d.length ≤ cap)
    (hne : ∀ d ∈ app ms, d ≠ hb) :
    datas (reads cap (filter hb cap ⟨mk hb ms, .eof⟩) sizes) <+: (app ms).flatten := by
  have h := read_is_concatenation cap (filter hb cap ⟨mk hb ms, .eof⟩) sizes (filter_fits hb cap _)
  have hq := queued_mk hb cap ms hbfit hfit hne
  have : flat (filter hb cap ⟨mk hb ms, .eof⟩) = (app ms).flatten := by
    simp only [flat, filter, hq, List.map_map]
    congr 1
    induction app ms with
    | nil => rfl
    | cons x xs ih => simp [ih]
  rw [this] at h; exact h

/-- … and with enough reads exactly that concatenation -/
theorem heartbeats_never_surface_partial (hb : Bytes) (cap : Nat) (ms : List (Option Bytes))
    (sizes : List Nat) (hbfit : hb.length ≤ cap) (hfit : ∀ d ∈ app ms, d.length ≤ cap)
    (hne : ∀ d ∈ app ms, d ≠ hb)
    (hpos : ∀ m ∈ sizes, 0 < m) (hlen : (app ms).flatten.length + ms.length ≤ sizes.length) :
    datas (reads cap (filter hb cap ⟨mk hb ms, .eof⟩) sizes) = (app ms).flatten := by
  have hq := queued_mk hb cap ms hbfit hfit hne
  have hflat : flat (filter hb cap ⟨mk hb ms, .eof⟩) = (app ms).flatten := by
    simp only [flat, filter, hq, List.map_map]
    congr 1
    induction app ms with
    | nil => rfl
    | cons x xs ih => simp [ih]
  have hlen' : (filter hb cap ⟨mk hb ms, .eof⟩).items.length ≤ ms.length := by
    simp only [filter, hq, List.length_map]
    clear hq hflat hlen hne hfit
    induction ms with
    | nil => simp [app]
    | cons m rest ih => cases m <;> simp [app] <;> omega
  have := read_complete cap (filter hb cap ⟨mk hb ms, .eof⟩) sizes (filter_fits hb cap _) hpos
    (by rw [hflat]; omega)
  rw [hflat] at this; exact this

/-- on the accepting side too an error comes after its data: a message that arrives together with a
stream error is queued (without the error) before the connection closes, after all earlier messages -/
theorem server_error_after_its_data (hb : Bytes) (cap : Nat) (pre post : List Item) (d : Bytes) (e : Err)
    (hpre : ∀ it ∈ pre, it.err = none ∧ it.data.length ≤ cap ∧ it.data ≠ hb)
    (hd : d.length ≤ cap) (hdn : d ≠ hb) (hd0 : d ≠ []) :
    queued hb cap (pre ++ ⟨d, some e⟩ :: post) = pre ++ [⟨d, none⟩] := by
  rw [queued_append_clean hb cap pre _ hpre]
  simp [queued, hd, hdn, hd0]

/-- **A heartbeat is a heartbeat whether or not its read also reports an error**: when the stream
returns the payload together with an error (`n > 0` and `err` at once), the pass of `recvLoop` counts
it and forwards nothing … -/
theorem heartbeat_with_error_not_data (hb : Bytes) (cap : Nat) (hfit : hb.length ≤ cap) (e : Option Err) :
    recvStep hb cap ⟨hb, e⟩ = .counted := by
  simp [recvStep, hfit]

/-- … so such a heartbeat, anywhere in the stream and with any error, leaves the reader's view exactly
as if it had not been sent (`queued` is what the passes of the loop queue: `queued_eq_queuedBy`) -/
theorem heartbeat_with_error_is_skipped (hb : Bytes) (cap : Nat) (hfit : hb.length ≤ cap)
    (pre post : List Item) (e : Option Err) :
    queued hb cap (pre ++ ⟨hb, e⟩ :: post) = queued hb cap (pre ++ post) := by
  rw [queued_filter_hb hb cap hfit (pre ++ ⟨hb, e⟩ :: post), queued_filter_hb hb cap hfit (pre ++ post)]
  simp [List.filter_append, List.filter_cons]

theorem loop_passes_queue_the_model (hb : Bytes) (cap : Nat) (items : List Item) :
    queuedBy hb cap items = queued hb cap items := (queued_eq_queuedBy hb cap items).symm

/-- non-vacuity: data, a heartbeat whose read reports a timeout, more data — the reader sees the data -/
example : queued [9] 4 [⟨[1], none⟩, ⟨[9], some .timeout⟩, ⟨[2], none⟩] = [⟨[1], none⟩, ⟨[2], none⟩] := by decide

/-- **A writer that outpaces the network is held back**: whatever the interleaving of application
writes, acknowledgements from the network and `Close`, the buffered amount never exceeds
`writeMaxBufferedAmount + writeMaxBufferedAmount/2` (the one-slot wake-up channel can hold one stale
token).  Heartbeats of the dialling side are written below the flow control (`hbWrite`, 32 bytes every
half interval) and are excluded here. -/
theorem buffered_bounded (max : Nat) (ops : List WOp) (hops : ∀ op ∈ ops, ∀ n, op ≠ .hbWrite n) :
    (wrun max ops).buffered ≤ max + max / 2 := by
  have h := (winv_run max ops 0 {} (winv_init max)).2.1
  have hz : hbBytes ops = 0 := by
    clear h
    induction ops with
    | nil => rfl
    | cons o os ih =>
      have := ih (fun op hop => hops op (by simp [hop]))
      have ho := hops o (by simp)
      cases o <;> simp_all [hbBytes, opHb]
  rw [hz] at h
  simpa using h

/-- with the heartbeat sender in the picture the bound grows only by the heartbeat bytes themselves -/
theorem buffered_bounded_with_heartbeats (max : Nat) (ops : List WOp) :
    (wrun max ops).buffered ≤ max + max / 2 + hbBytes ops := by
  have h := (winv_run max ops 0 {} (winv_init max)).2.1
  simpa using h

/-- an over-sized or empty write changes nothing -/
theorem write_limit (max : Nat) (s : WState) (n : Nat) (hb : s.blocked = none) :
    (n = 0 → wstep max s (.write n) = (s, .zero)) ∧
    (max / 2 < n → wstep max s (.write n) = (s, .limit)) := by
  constructor
  · intro h; simp [wstep, hb, h]
  · intro h
    have : n ≠ 0 := by omega
    simp [wstep, hb, this, h]

/-- **A peer that stops sending heartbeats causes the connection to close**: from any reachable
watchdog state, if no heartbeat is counted while two watchdog periods (`2·T` ticks) pass — whatever
else arrives — the connection is closed. -/
theorem watchdog_closes (T : Nat) (hT : 1 ≤ T) (before after : List Ev)
    (hno : ∀ e ∈ after, e ≠ .hb) (hticks : 2 * T ≤ ticks after) :
    (((WD.init T).run before).run after).closed = true := by
  have hwf := wf_run (WD.init T) before (wf_init T hT)
  have hTeq : ((WD.init T).run before).T = T := T_run _ _
  rcases phi_run _ after hwf hno with h | h
  · exact h
  · have hle := phi_le _ hwf
    rw [hTeq] at hle
    exact phi_zero_closed _ (wf_run _ after hwf) (by omega)

/-- … and within one period if nothing at all arrives (the read deadline of `recvLoop`) -/
theorem watchdog_closes_idle (T : Nat) (hT : 1 ≤ T) (before : List Ev) (n : Nat) (hn : T ≤ n) :
    (((WD.init T).run before).run (List.replicate n .tick)).closed = true := by
  have hwf := wf_run (WD.init T) before (wf_init T hT)
  have hTeq : ((WD.init T).run before).T = T := T_run _ _
  rcases idle_run _ n hwf with h | ⟨hle, hcl⟩
  · exact h
  · have hwf' := wf_run _ (List.replicate n .tick) hwf
    obtain ⟨_, _, h3, _⟩ := hwf'.2 hcl
    cases hc : ((WD.init T).run before).closed with
    | true => rw [closed_run _ _ hc] at hcl; cases hcl
    | false =>
      obtain ⟨_, _, _, h4⟩ := hwf.2 hc
      rw [hTeq] at h4
      omega

/-- non-vacuity: heartbeats for a while (the connection stays open), then silence -/
example : ((WD.init 3).run [.tick, .hb, .tick, .tick, .hb, .tick, .data, .tick, .tick]).closed = false := by decide
example : ∀ e ∈ [Ev.tick, .data, .tick, .tick, .data, .tick, .tick, .tick], e ≠ .hb := by decide
example : 2 * 3 ≤ ticks [Ev.tick, .data, .tick, .tick, .data, .tick, .tick, .tick] := by decide

end heartbeat

/-! ## the source of `SCTPConn.Write` and of the handshake functions

`CJ.Gen.C16Source` is regenerated from pkg/dtls (go/ast) on every run.  The flow-control bound above
rests on what can wake a writer that waits in `Write`; the byte-stream clauses rest on the established
connection not carrying a deadline of the handshake with it.  Both are structural facts of the source;
they are stated about the regenerated tables, so a change of the source that invalidates them leaves
an unproved obligation. -/
section source
open CJ.SctpConn CJ.Gen.C16Source

def wakeOfName : String → Option Wake
  | "closed" => some .closed
  | "low" => some .low
  | "timer" => some .timer
  | "other" => some .other
  | _ => none

def exitOfName : String → Option Exit
  | "fail" => some .fail
  | "proceed" => some .proceed
  | _ => none

/-- the wait of `SCTPConn.Write` as read from the source -/
def extractedShape : Option WaitShape :=
  (writeWaitCases.mapM fun (c : String × String × String) => do some ((← wakeOfName c.2.1), (← exitOfName c.2.2))).map
    fun cs => { loops := writeWaitLoops, cases := cs }

/-- **The bound holds for every shape of the wait in which each way on to `stream.Write` is the
buffered-amount-low notification or passes the `BufferedAmount()+len ≤ max` test again** — whatever
other wake-up sources there are and whenever they fire. -/
theorem buffered_bounded_any_wakeup (sh : WaitShape) (hs : sh.safe = true) (max : Nat) (ops : List GOp) :
    (grun sh max ops).buffered ≤ max + max / 2 + ghbBytes ops := by
  have h := (ginv_run sh hs max ops 0 {} (winv_init max)).2.1
  simpa using h

/-- the wait in the source is the one `wstep` models: an `if`, left by `Close` with an error and by
the notification towards `stream.Write`, by nothing else -/
theorem write_wait_is_modelled : extractedShape = some sourceShape := by decide

/-- every path from the wait of the source to `stream.Write` is checked -/
theorem write_wait_every_wakeup_checked : extractedShape.map (·.safe) = some true := by decide

/-- what surrounds the wait: one `select`, entered exactly when `BufferedAmount()+len` exceeds the
limit, inside the write mutex, behind the size check; the only thing behind it is the one
`stream.Write`; the wake-up channel is made ready by the `OnBufferedAmountLow` callback alone, and the
threshold of that callback is half the limit -/
theorem write_wait_surroundings :
    writeSelects = 1 ∧
    writeWaitGuard = "s.stream.BufferedAmount()+writeLen > writeMaxBufferedAmount" ∧
    "if writeLen > writeMaxBufferedAmount/2 { return 0, fmt.Errorf(\"write limit exceeded\") }" ∈ writeBeforeWait ∧
    "s.writeMutex.Lock()" ∈ writeBeforeWait ∧
    writeAfterWait = ["return s.stream.Write(b)"] ∧ writeStreamWrites = 1 ∧
    wakeSenders = [("newSCTPConn", "send", "OnBufferedAmountLow")] ∧
    lowThreshold = "writeMaxBufferedAmount / 2" ∧ 0 < writeMax := by decide

/-- … so the bound holds for the wait as it is in the source, with any further wake-up source firing
at any moment (the passing of time included) -/
theorem buffered_bounded_source_wait (sh : WaitShape) (hsh : extractedShape = some sh) (ops : List GOp) :
    (grun sh writeMax ops).buffered ≤ writeMax + writeMax / 2 + ghbBytes ops := by
  have h := write_wait_every_wakeup_checked
  rw [hsh] at h
  exact buffered_bounded_any_wakeup sh (by simpa using h) writeMax ops

/-- and for the source's wait time passing changes nothing at all: `fire` is the identity -/
theorem time_does_not_release_writer (max : Nat) (s : WState) (w : Wake) :
    (gstep sourceShape max s (.fire w)).1 = s := by
  simp [gstep, fire_source]

/-- the hypothesis of `buffered_bounded_any_wakeup` is needed: with a timer case that goes on to
`stream.Write` without looking at the amount again, every stalled second adds a message -/
example : (grun { loops := false, cases := [(.closed, .fail), (.low, .proceed), (.timer, .proceed)] } 100
    [.op (.write 50), .op (.write 50), .op (.write 50), .fire .timer, .op (.write 50), .fire .timer,
     .op (.write 50), .fire .timer]).buffered = 250 := by decide
example : (grun { loops := true, cases := [(.closed, .fail), (.low, .proceed), (.timer, .proceed)] } 100
    [.op (.write 50), .op (.write 50), .op (.write 50), .fire .timer, .op (.write 50), .fire .timer,
     .op (.write 50), .fire .timer]).buffered = 100 := by decide

/-! ### deadlines of the handshake

`ClientWithContext`, `ServerWithContext` and `AcceptWithContext` put the context's deadline on a
connection for the duration of the SCTP set-up.  A deadline that is still armed when the function
returns the established connection ends that connection when the instant passes, whatever the two
ends do: the byte stream would not be lossless.  `dlScan` walks the deadline calls of a function in
source order and accepts iff at every successful return no deadline is armed.  A call on a wrapper
obtained from `wrapSCTP(x, …)` reaches `x` (`SCTPConn.SetDeadline` / `SetWriteDeadline` forward to the
connection handed to `newSCTPConn`: `wrapper_deadline_reaches_connection`); it does *not* reach a
connection further down (a `dtls.Conn` keeps its deadlines to itself). -/

def dlScan (armed : List (String × String)) (al : List (String × String)) :
    List (String × String × String) → Bool
  | [] => true
  | (k, a, b) :: r =>
    if k = "arm" then dlScan ((a, b) :: armed) al r
    else if k = "clear" then
      dlScan (armed.filter fun cm =>
        !((cm.1 = a || ((a, cm.1) ∈ al && b ≠ "SetReadDeadline")) && (b = "SetDeadline" || b = cm.2))) al r
    else if k = "wrap" then dlScan armed ((a, b) :: al) r
    else if k = "retOk" then armed.isEmpty && dlScan armed al r
    else if k = "retErr" then dlScan armed al r
    else false

/-- **No handshake deadline outlives the handshake**: in every function of the package that sets a
deadline, every successful return is reached with all of them cleared on the connection they were
set on. -/
theorem handshake_deadlines_cleared : ∀ f ∈ deadlineEvents, dlScan [] [] f.2 = true := by decide

/-- the table is about the three handshake functions (each arms a deadline and returns successfully) -/
theorem handshake_deadline_table_covers :
    ∀ n ∈ ["ClientWithContext", "ServerWithContext", "Listener.AcceptWithContext"],
      ∃ f ∈ deadlineEvents, f.1 = n ∧ ("arm", "conn", "SetDeadline") ∈ f.2 ∧ ("retOk", "", "") ∈ f.2 := by decide

theorem wrapper_deadline_reaches_connection :
    ("SCTPConn.SetDeadline", "s.conn", "SetDeadline") ∈ deadlineForwards ∧
    ("SCTPConn.SetWriteDeadline", "s.conn", "SetWriteDeadline") ∈ deadlineForwards ∧
    wrappedConnArgs.length = 4 ∧ ∀ c ∈ wrappedConnArgs, c.2.2 = "conn" := by decide

/-- **The context bounds the handshake and nothing else**: every use of a `context.Context` in the
package hands it to the callee that performs (part of) the handshake, reads its deadline, or — in
`acceptDTLSConn`, before any connection exists — waits for it; none sits in a function literal or a
`go` statement that could outlive the call.  So nothing in pkg/dtls can act on a cancellation or expiry
that comes after the connection has been returned. -/
theorem context_only_bounds_the_handshake :
    ∀ u ∈ ctxUses, u ∈ [
      ("ClientWithContext", "arg:dtlsCtx", "direct"), ("ClientWithContext", "ctx.Deadline", "direct"),
      ("DialWithContext", "arg:ClientWithContext", "direct"),
      ("Listener.AcceptWithContext", "arg:l.acceptDTLSConn", "direct"),
      ("Listener.AcceptWithContext", "ctx.Deadline", "direct"),
      ("Listener.acceptDTLSConn", "ctx.Done", "direct"), ("Listener.acceptDTLSConn", "ctx.Err", "direct"),
      ("ServerWithContext", "arg:dtls.ServerWithContext", "direct"), ("ServerWithContext", "ctx.Deadline", "direct"),
      ("dtlsCtx", "arg:dtls.ClientWithContext", "direct")] := by decide

/-- `dlScan` refuses a deadline that is cleared only on the wrapper of a *different* connection … -/
example : dlScan [] [] [("arm", "conn", "SetDeadline"), ("wrap", "w", "dtlsConn"), ("clear", "w", "SetDeadline"),
    ("retOk", "", "")] = false := by decide
/-- … and accepts when the wrapper wraps the connection itself -/
example : dlScan [] [] [("arm", "conn", "SetDeadline"), ("wrap", "w", "conn"), ("clear", "w", "SetDeadline"),
    ("retOk", "", "")] = true := by decide

end source

/-! ## credentials from the secret

"Both ends derive identical certificates from a shared secret and a handshake completes only when
both used the same secret … for all secrets."  The first half is that `derive` is a function.  The
second needs distinct secrets to give distinct credentials; that rests on *where* the secret enters
HKDF.  `CJ.DtlsDerive.HkdfLaws` asks collision-freedom of Extract in the input-key position only. -/
section derivation
open CJ.DtlsDerive CJ.Gen.C16Source

/-- **Distinct secrets, distinct credentials** — for all secrets, whatever their length or relation
(one a prefix of the other, one the digest of the other, …) -/
theorem distinct_secrets_distinct_credentials (h : Hkdf) (L : HkdfLaws h) (s1 s2 : Bytes) (hne : s1 ≠ s2) :
    (derive h s1).helloRandom ≠ (derive h s2).helloRandom ∧
    (derive h s1).certStream ≠ (derive h s2).certStream :=
  ⟨fun he => hne (read_inj h L labelRandom [] 32 (Nat.le_refl 32) s1 s2 he),
   fun he => hne (read_inj h L labelCerts [] certStreamLen (by decide) s1 s2 he)⟩

/-- both ends compute the same from the same secret -/
theorem same_secret_same_credentials (h : Hkdf) (s1 s2 : Bytes) (he : s1 = s2) : derive h s1 = derive h s2 := by
  rw [he]

/-- **Counter-model: the secret in the salt position.**  With the first two byte arguments of
`hkdf.New` exchanged the secret is an HMAC key, and HMAC pads its key with zero bytes: a secret and the
same secret followed by zero bytes (up to the block size) give the same credentials … -/
theorem hmac_key_padding_collides (hash : Bytes → Bytes) (h : Hkdf) (K : HmacKeyed hash h) (S : Bytes) (k : Nat)
    (hk : S.length + k ≤ 64) :
    deriveSwapped h (S ++ List.replicate k 0) = deriveSwapped h S := by
  have e : ∀ ikm, h.extract (S ++ List.replicate k 0) ikm = h.extract S ikm := fun ikm => by
    rw [K.extract_pads_salt (S ++ List.replicate k 0) ikm, padKey_zero_ext hash S k hk, ← K.extract_pads_salt S ikm]
  simp [deriveSwapped, Hkdf.read, e]

/-- … and a secret longer than a block and its digest do -/
theorem hmac_long_key_collides (hash : Bytes → Bytes) (h : Hkdf) (K : HmacKeyed hash h) (S : Bytes)
    (hS : 64 < S.length) (hh : (hash S).length ≤ 64) :
    deriveSwapped h S = deriveSwapped h (hash S) := by
  have e : ∀ ikm, h.extract S ikm = h.extract (hash S) ikm := fun ikm => by
    rw [K.extract_pads_salt S ikm, padKey_long hash S hS hh, ← K.extract_pads_salt (hash S) ikm]
  simp [deriveSwapped, Hkdf.read, e]

/-- so with the arguments exchanged two *distinct* secrets share their credentials, for every HKDF
built on HMAC — while `distinct_secrets_distinct_credentials` holds for the very same HKDF
(`toy_laws`, `toy_hmacKeyed`: the two sets of hypotheses are consistent) -/
theorem swapped_derivation_not_injective (hash : Bytes → Bytes) (h : Hkdf) (K : HmacKeyed hash h) :
    ∃ s1 s2 : Bytes, s1 ≠ s2 ∧ deriveSwapped h s1 = deriveSwapped h s2 :=
  ⟨[0], [], by decide, by simpa using hmac_key_padding_collides hash h K [] 1 (by decide)⟩

theorem laws_and_key_padding_consistent : ∃ hash h, HkdfLaws h ∧ HmacKeyed hash h :=
  ⟨toyHash, toy, toy_laws, toy_hmacKeyed⟩

/-- **The secret is the input key of HKDF** at every call site of the package (regenerated from the
source): the parameter `seed` is the second argument of `hkdf.New`, the salt is a constant label
(different for the two derivations), there is no info and no other use of the package … -/
theorem seed_is_hkdf_input_key :
    hkdfCalls = [("certsFromSeed", "param:seed", "label:certsFromSeed", "nil"),
                 ("clientHelloRandomFromSeed", "param:seed", "label:clientHelloRandomFromSeed", "nil")] ∧
    hkdfOtherUses = 0 := by decide

/-- … and what reaches `seed` is the configured secret itself, on every path -/
theorem derivations_take_the_configured_secret :
    seedCallers ≠ [] ∧ ∀ c ∈ seedCallers, c.2.2 = "config.PSK" := by decide

end derivation

/-! ## the listener over its whole life

One `Listener` serves every session of the station's life.  `CJ.AcceptLoop` is the accept loop as a
transition system over a history of handshakes, generic in what is taken per accepted connection
and on which exits of the handshake goroutine it is given back; the shape of the real
`acceptLoop` is regenerated from the source. -/
section life
open CJ.AcceptLoop

/-- **No state accumulates.**  If every exit path that occurs gives every resource back, then after
*any* history of handshakes — failed at once, failed after the timeout, completed without an
acceptor, delivered, given up; any number, any order, any number in flight at a time — once the
handshakes in flight have ended nothing is held. -/
theorem listener_history_leaves_nothing_held (rs : List Res) (evs : List Ev)
    (hb : ∀ e ∈ evs, ∀ p, e.path = some p → Balanced rs p) :
    (run rs (init rs) (evs ++ [.settle])).flight = [] ∧
    (run rs (init rs) (evs ++ [.settle])).held = rs.map fun _ => 0 := by
  have hi : Inv rs (run rs (init rs) (evs ++ [.settle])) := by
    apply inv_run rs _ _ (inv_init rs)
    intro e he p hp
    rcases List.mem_append.mp he with h | h
    · exact hb e h p hp
    · have : e = .settle := by simpa using h
      subst this; cases hp
  have hf : (run rs (init rs) (evs ++ [.settle])).flight = [] := by
    rw [run_append]; simp [run, step]
  exact ⟨hf, by rw [hi.1, hf]; simp⟩

/-- … so **the next matching pair is taken** exactly like the first one, whatever came before
(every bounded resource has room for at least one handshake). -/
theorem next_connection_is_taken_after_any_history (rs : List Res) (evs : List Ev)
    (hb : ∀ e ∈ evs, ∀ p, e.path = some p → Balanced rs p)
    (hcap : ∀ r ∈ rs, r.cap ≠ some 0) (p : Nat) :
    (step rs (run rs (init rs) (evs ++ [.settle])) (.fast p)).2 = true := by
  have h := (listener_history_leaves_nothing_held rs evs hb).2
  simp only [step, h, canTake_zero rs hcap, if_true]

/-- The hypothesis is what matters: one exit that keeps a slot of a 32-slot semaphore (released after a
successful handshake, not after a failed one) and 32 failed handshakes over the life of the listener
— one at a time, nothing ever in flight together — block the loop for good: the matching pair
after them is not taken, nor any later one. -/
theorem one_leaking_exit_blocks_the_listener :
    let rs : List Res := [{ cap := some 32, released := [false, true, true, true] }]
    taken rs (init rs) (List.replicate 31 (.fast 0) ++ [.fast 2, .fast 0, .settle, .fast 2, .fast 2]) =
      List.replicate 31 true ++ [true, true, true, false, false] := by decide

/-- the shape of the real accept loop -/
def sourceLoop : List Res :=
  CJ.Gen.C16AcceptLoop.resources.map fun (x : String × String × String × String × Option Nat × List Bool) =>
    { cap := x.2.2.2.2.1, released := x.2.2.2.2.2 }

/-- the model line `loop|…` of the harness is run on exactly this shape -/
theorem driver_runs_the_source_loop : CJ.Drv.AcceptLoop.sourceShape = sourceLoop := rfl

/-- **The exits of the handshake goroutine are the four the model numbers** (regenerated from the
source): handshake failed, no acceptor registered, sent to the acceptor, gave up after the timeout;
the end of the function cannot be reached. -/
theorem accept_loop_exits_are_modelled :
    CJ.Gen.C16AcceptLoop.exits =
      ["if err != nil", "if err != nil", "select case acceptCh <- newDTLSConn", "select case <-ctx.Done()"] := by
  decide

/-- **Every acquire has its release on every exit** (regenerated from the source): whatever the loop
or the goroutine takes per connection out of a shared supply — a slot of a channel, a counter, a map
entry, a lock, a context — is given back on each of the exit paths (directly or by a `defer`), and
no supply is empty from the start. -/
theorem accept_loop_returns_everything_on_every_exit :
    (∀ r ∈ CJ.Gen.C16AcceptLoop.resources,
        r.2.2.2.2.2.length = CJ.Gen.C16AcceptLoop.exits.length ∧ r.2.2.2.2.2.all id = true ∧ r.2.2.2.2.1 ≠ some 0) ∧
    CJ.Gen.C16AcceptLoop.resources.map (fun r => (r.1, r.2.1)) = [("cancel", "context")] := by
  decide

theorem sourceLoop_balanced : ∀ p, p < 4 → ∀ r ∈ sourceLoop, relOn r p = true := by decide

/-- **The real listener after any history.**  Whatever handshakes the listener has been through —
any number, on any of its four exits, in any order, any number in flight — the next connection is
taken by the accept loop. -/
theorem source_listener_takes_next_connection (evs : List Ev)
    (hp : ∀ e ∈ evs, ∀ p, e.path = some p → p < 4) (p : Nat) :
    (step sourceLoop (run sourceLoop (init sourceLoop) (evs ++ [.settle])) (.fast p)).2 = true :=
  next_connection_is_taken_after_any_history sourceLoop evs
    (fun e he q hq => sourceLoop_balanced q (hp e he q hq)) (by decide) p

example : taken sourceLoop (init sourceLoop)
    (List.replicate 40 (.fast 0) ++ List.replicate 20 (.slow 3) ++ [.fast 2]) = List.replicate 61 true := by
  decide

end life

end CJ.Props.C16
