import CJ.Model.PatternList
import CJ.Gen.C19Pattern
import CJ.Props.C19
/-! C19, the text of the `covert_blocklist_domains` patterns: what `ParseBlocklists` / `isBlocklistedCovertDomain`
do with a pattern list, for **every** regular-expression engine (`CJ.PatternList.Engine`, a parameter that only
ever sees the text the code hands to it), every list and every host.  The tie to the source is
`CJ.Gen.C19Pattern.shape` (go/ast on every run): the argument of `regexp.Compile` is the configured entry itself,
the argument of `MatchString` the host itself. -/
namespace CJ.Props.C19
open CJ.PatternList CJ.Config

/-- an accepted list is the list as written, entry by entry through `f`, in order -/
theorem pattern_load_ok_eq (E : Engine) (f : String → String) :
    ∀ (pats l : List String), load E f pats = .ok l → l = pats.map f ∧ ∀ p ∈ pats, E.compiles (f p) = true := by
  intro pats
  induction pats with
  | nil => intro l h; simp [load] at h; subst h; simp
  | cons p ps ih =>
    intro l h
    cases hc : E.compiles (f p) with
    | false => simp [load, hc] at h
    | true =>
      cases hl : load E f ps with
      | error e => obtain ⟨i, q⟩ := e; simp [load, hc, hl] at h
      | ok l' =>
        simp [load, hc, hl] at h
        obtain ⟨h1, h2⟩ := ih l' hl
        subst h; subst h1
        refine ⟨by simp, ?_⟩
        intro q hq
        rcases List.mem_cons.mp hq with rfl | hq
        · exact hc
        · exact h2 q hq

/-- the first entry the engine refuses makes the whole load fail, naming that entry — whatever comes after it -/
theorem pattern_first_error_refuses (E : Engine) (f : String → String) (p : String) (post : List String)
    (hp : E.compiles (f p) = false) :
    ∀ pre : List String, (∀ q ∈ pre, E.compiles (f q) = true) →
      load E f (pre ++ p :: post) = .error (pre.length, p) := by
  intro pre
  induction pre with
  | nil => intro _; simp [load, hp]
  | cons q pre ih =>
    intro hpre
    have hq := hpre q (List.mem_cons_self ..)
    have := ih (fun x hx => hpre x (List.mem_cons_of_mem _ hx))
    simp [load, hq, this]

/-- a list is accepted iff every entry compiles -/
theorem pattern_load_ok_iff (E : Engine) (f : String → String) (pats : List String) :
    (∃ l, load E f pats = .ok l) ↔ ∀ p ∈ pats, E.compiles (f p) = true := by
  constructor
  · rintro ⟨l, h⟩; exact (pattern_load_ok_eq E f pats l h).2
  · intro h
    induction pats with
    | nil => exact ⟨[], rfl⟩
    | cons p ps ih =>
      obtain ⟨l, hl⟩ := ih (fun x hx => h x (List.mem_cons_of_mem _ hx))
      exact ⟨f p :: l, by simp [load, h p (List.mem_cons_self ..), hl]⟩

/-- a refused list names an entry of the list that does not compile, and every entry before it compiles -/
theorem pattern_load_error_sound (E : Engine) (f : String → String) :
    ∀ (pats : List String) (i : Nat) (q : String), load E f pats = .error (i, q) →
      pats[i]? = some q ∧ E.compiles (f q) = false ∧ ∀ p ∈ pats.take i, E.compiles (f p) = true := by
  intro pats
  induction pats with
  | nil => intro i q h; simp [load] at h
  | cons p ps ih =>
    intro i q h
    cases hc : E.compiles (f p) with
    | false =>
      simp [load, hc] at h
      obtain ⟨rfl, rfl⟩ := h
      simp [hc]
    | true =>
      cases hl : load E f ps with
      | ok l' => simp [load, hc, hl] at h
      | error e =>
        obtain ⟨j, q'⟩ := e
        simp [load, hc, hl] at h
        obtain ⟨rfl, rfl⟩ := h
        obtain ⟨h1, h2, h3⟩ := ih j q' hl
        refine ⟨by simpa using h1, h2, ?_⟩
        intro x hx
        simp [List.take_succ_cons] at hx
        rcases hx with rfl | hx
        · exact hc
        · exact h3 x hx

/-- **the decision, as written**: with the entry and the host handed to the engine unchanged, a host is refused iff
the expression of some configured entry — the text as configured — matches the host as given -/
theorem pattern_blocked_iff (E : Engine) (pats l : List String) (host : String) (h : load E id pats = .ok l) :
    blocked E id l host = true ↔ ∃ p ∈ pats, E.matchStr p host = true := by
  obtain ⟨rfl, _⟩ := pattern_load_ok_eq E id pats l h
  simp [blocked, List.any_eq_true]

/-- every accepted entry is enforced, whatever else is in the list -/
theorem pattern_entry_enforced (E : Engine) (pats l : List String) (p host : String) (h : load E id pats = .ok l)
    (hp : p ∈ pats) (hm : E.matchStr p host = true) : blocked E id l host = true :=
  (pattern_blocked_iff E pats l host h).mpr ⟨p, hp, hm⟩

example : ∃ E pats l, load E id pats = .ok l ∧ "a" ∈ pats ∧ E.matchStr "a" "a" = true :=
  ⟨⟨fun _ => true, fun p h => p == h⟩, ["a"], ["a"], rfl, by simp, by decide⟩

/-- the loop is the domain loop of `CJ.Config.parseBlocklists` with `regexp.Compile` = `reOf E f` -/
theorem pattern_load_is_parseAll (E : Engine) (f : String → String) (pats : List String) :
    parseAll (reOf E f) pats = (match load E f pats with | .ok l => Outcome.ok l | .error _ => Outcome.err) := by
  induction pats with
  | nil => simp [parseAll, load]
  | cons p ps ih =>
    cases hc : E.compiles (f p) with
    | false => simp [parseAll, load, reOf, hc]
    | true =>
      cases hl : load E f ps with
      | ok l' => simp [parseAll, load, reOf, hc, hl, ih]
      | error e => obtain ⟨i, q⟩ := e; simp [parseAll, load, reOf, hc, hl, ih]

/-- the source has the shape the model describes: one compile site, in the loop over the configured entries, its
argument the entry itself; first error returns an error; the compiled expression goes to the list the decision
function ranges over, which was emptied before; `MatchString` gets the host itself; true on the first match,
false at the end -/
theorem pattern_code_shape : CJ.Gen.C19Pattern.shape = Shape.modelled := by decide

/-- the two arguments are the texts as written (seed C19-10 lower-cased both) -/
theorem pattern_args_as_written :
    CJ.Gen.C19Pattern.shape.compileArg = .asWritten ∧ CJ.Gen.C19Pattern.shape.hostArg = .asWritten := by decide

/-- the same for the argument functions read off the source: every accepted entry, as written, is enforced on the
host as given — for every engine -/
theorem pattern_entry_enforced_extracted (E : Engine) (pats l : List String) (p host : String)
    (h : load E CJ.Gen.C19Pattern.shape.compileArg.fn pats = .ok l) (hp : p ∈ pats)
    (hm : E.matchStr p host = true) :
    blocked E CJ.Gen.C19Pattern.shape.hostArg.fn l host = true := by
  have h1 : CJ.Gen.C19Pattern.shape.compileArg.fn = id := by rw [pattern_args_as_written.1]; rfl
  have h2 : CJ.Gen.C19Pattern.shape.hostArg.fn = id := by rw [pattern_args_as_written.2]; rfl
  rw [h1] at h; rw [h2]
  exact pattern_entry_enforced E pats l p host h hp hm

/-- one level up: in a configuration accepted by `parseBlocklists` with `regexp.Compile` = the engine on the entry
as written, the domain decision is "some configured entry matches", for every engine -/
theorem pattern_policy_enforced {Net : Type} (E : Engine) (cidr : String → Outcome Net)
    (ifaces : Option (List Net)) (raw : Raw) (parsed : Parsed Net String)
    (h : parseBlocklists cidr (reOf E id) ifaces raw = .ok parsed) (host : String) :
    parsed.covertDomainBlocked E.matchStr host = true ↔ ∃ p ∈ raw.domains, E.matchStr p host = true := by
  rw [domains_enforced_iff cidr (reOf E id) ifaces raw parsed h E.matchStr host]
  constructor
  · rintro ⟨s, hs, r, hr, hm⟩
    refine ⟨s, hs, ?_⟩
    unfold reOf at hr
    split at hr
    · simp at hr; subst hr; exact hm
    · simp at hr
  · rintro ⟨p, hp, hm⟩
    -- p compiles, since the load was accepted
    obtain ⟨_, hd, _, _, _, _⟩ := accepted_enforces_every_entry cidr (reOf E id) ifaces raw parsed h
    unfold ParsesTo at hd
    have hmem : reOf E id p ∈ raw.domains.map (reOf E id) := List.mem_map.mpr ⟨p, hp, rfl⟩
    rw [hd] at hmem
    obtain ⟨v, _, e⟩ := List.mem_map.mp hmem
    refine ⟨p, hp, p, ?_, hm⟩
    unfold reOf at e ⊢
    split at e
    · rename_i hc; simpa using hc
    · simp at e

/-- counter-model (seed C19-10 lower-cased the entry): **any** rewriting of the entry before `regexp.Compile` that
changes some entry `p` leaves `p` unenforced for some engine — an accepted list, a host the entry as written
matches, and the host passes -/
theorem transformed_pattern_not_enforced (f g : String → String) (p : String) (hne : f p ≠ p) :
    ∃ (E : Engine) (l : List String) (host : String), load E f [p] = .ok l ∧
      E.matchStr p host = true ∧ blocked E g l host = false := by
  refine ⟨⟨fun _ => true, fun q _ => q == p⟩, [f p], "", by simp [load], by simp, ?_⟩
  simp [blocked, hne]

end CJ.Props.C19
