import CJ.Props.C07
import CJ.Lemmas.IngestStore
import CJ.Gen.IngestWrites
/-!
# C07 under sequences of messages: what a connectable registration *holds*

`CJ.Props.C07` decides *whether* a registration becomes connectable.  The connection handler, however,
uses the stored object that `GetRegistrations(phantom)` returns: it dials `reg.Covert`, matches on the
phantom address and port, reads flags and transport.  The property ("… iff … its covert address passes
the covert policy …; in every other case it is never returned for an incoming connection") therefore
has a history dimension: after *any* sequence of messages — in particular further messages of the same
session (same phantom, same identifier) that differ from the first in fields admission looked at:
covert address, flags, source, registrant, registrar overrides, transport parameters — every
registration that is returned must hold values that passed every admission condition.

Property theorems only; the model is `CJ.Ingest.runC` (`CJ/Model/IngestStore.lean`): the run of
`CJ.Ingest.run` plus the stored objects.  Library verdicts are universally quantified; the assumptions
are the selector's contract (`SelectorFam`, as in `CJ.Props.C07`) and that the covert verdict of a
message is the verdict on that message's covert address (`WireC.WF`).
-/
namespace CJ.Props.C07
open CJ.Ingest
open CJ.Detector (Bytes)
open CJ.Registry (Key)

/-- the admission decision of a message was taken on its own covert address -/
def WireC.WF (w : WireC) : Prop := ∀ m o, w.w = .msg m o → o.covertOk = w.cv.resolved.isSome

/-- the selector's contract holds for the message -/
def WireC.Sel (w : WireC) : Prop := ∀ m o, w.w = .msg m o → SelectorFam o

/-! ### the combined run is the run of `CJ.Props.C07` -/

/-- registry flags and events of `runC` are those of `run`: every theorem of `CJ.Props.C07` about `run` /
`ingestWire` (admission iff, probes, sharing, announcements) holds for the combined run -/
theorem runC_reg (c : Cfg) (ws : List WireC) (x : StC) :
    (runC c x ws).1.reg = (run c x.reg (ws.map (·.w))).1 ∧ (runC c x ws).2 = (run c x.reg (ws.map (·.w))).2 := by
  induction ws generalizing x with
  | nil => exact ⟨rfl, rfl⟩
  | cons w ws ih =>
    rw [runC_cons, List.map_cons, run_cons]
    obtain ⟨h1, h2⟩ := ingestWireC_reg c x w
    obtain ⟨i1, i2⟩ := ih (ingestWireC c x w).1
    rw [h1] at i1 i2
    exact ⟨i1, by rw [h2, i2]⟩

/-! ### a tracked registration's stored object never changes -/

theorem tracked_object_regs (c : Cfg) (o : Oracles) (cv : Covert) (rs : List Reg) (x : StC) (k : Key)
    (e : CJ.Registry.Reg) (he : get x.reg k = some e) :
    (ingestRegsC c o cv x rs).1.objs k = x.objs k ∧ ∃ e', get (ingestRegsC c o cv x rs).1.reg k = some e' := by
  induction rs generalizing x e with
  | nil => exact ⟨rfl, e, he⟩
  | cons r rs ih =>
    rw [ingestRegsC_cons]
    obtain ⟨e1, he1⟩ := tracked_ingestReg c o x.reg r k e he
    obtain ⟨h1, h2⟩ := ih (ingestRegC c o cv x r).1 e1 he1
    refine ⟨?_, h2⟩
    rw [h1]
    exact storeReg_keeps_tracked c cv x.reg x.objs r k e he

theorem tracked_object_wire (c : Cfg) (x : StC) (w : WireC) (k : Key) (e : CJ.Registry.Reg)
    (he : get x.reg k = some e) :
    (ingestWireC c x w).1.objs k = x.objs k ∧ ∃ e', get (ingestWireC c x w).1.reg k = some e' := by
  obtain ⟨ww, cv⟩ := w
  cases ww with
  | garbage => exact ⟨rfl, e, he⟩
  | msg m o =>
    rw [ingestWireC_eq]
    exact tracked_object_regs c o cv _ x k e he

/-- **Duplicates do not change stored fields.**  Once a registration is tracked, no sequence of
messages — copies of its message, messages of the same session with another covert address, other
flags, another source, another registrant, other registrar overrides, or messages of other sessions —
changes any field of the stored object (until it expires; the sweep is not part of `runC`). -/
theorem tracked_object_immutable (c : Cfg) (ws : List WireC) (x : StC) (k : Key) (e : CJ.Registry.Reg)
    (he : get x.reg k = some e) : (runC c x ws).1.objs k = x.objs k := by
  induction ws generalizing x e with
  | nil => rfl
  | cons w ws ih =>
    rw [runC_cons]
    obtain ⟨h1, e1, he1⟩ := tracked_object_wire c x w k e he
    rw [ih (ingestWireC c x w).1 e1 he1, h1]

/-- the single-message form: a message whose registration of family `f` is already tracked leaves that
registration's stored object as it is (companion of `resent_registration_no_effects`) -/
theorem duplicate_keeps_stored_fields (c : Cfg) (x : StC) (m : Msg) (o : Oracles) (cv : Covert) (f : Fam)
    (r : Reg) (_hr : regOf c m o f = some r) (e : CJ.Registry.Reg) (he : get x.reg (keyOf r) = some e) :
    (ingestWireC c x ⟨.msg m o, cv⟩).1.objs (keyOf r) = x.objs (keyOf r) :=
  (tracked_object_wire c x ⟨.msg m o, cv⟩ (keyOf r) e he).1

/-! ### every connectable registration holds admitted values -/

/-- message `w` yields (for some family) a registration with exactly the stored fields, it satisfies
every admission condition of `CJ.Props.C07.Conditions`, and the stored covert address is the covert
policy's answer for the covert address of that very message -/
def AdmittedBy (c : Cfg) (w : WireC) (obj : Obj) : Prop :=
  ∃ m o f, w.w = .msg m o ∧ regOf c m o f = some obj.reg ∧ Conditions c m o f ∧ w.cv.resolved = some obj.covert

/-- every registration that lookups return is stored under its own key and holds the values of a
message of `ws` that satisfied every admission condition -/
def StoredOK (c : Cfg) (ws : List WireC) (x : StC) : Prop :=
  ∀ k, validAt x.reg k → ∃ obj, x.objs k = some obj ∧ keyOf obj.reg = k ∧ ∃ w ∈ ws, AdmittedBy c w obj

theorem storedOK_ingestRegC (c : Cfg) (all : List WireC) (o : Oracles) (cv : Covert) (x : StC) (r : Reg)
    (hnew : validate c r = .ok () → passes c o r = true →
      ∃ w ∈ all, AdmittedBy c w { reg := r, covert := cv.resolved.getD cv.raw })
    (h : StoredOK c all x) : StoredOK c all (ingestRegC c o cv x r).1 := by
  intro k hk
  have hk' : validAt (ingestReg c o x.reg r).1 k := hk
  rcases (validAt_ingestReg c o x.reg r k).mp hk' with hold | ⟨rfl, hv, hn, hp⟩
  · obtain ⟨obj, ho, hkey, hadm⟩ := h k hold
    obtain ⟨e, he, _⟩ := hold
    refine ⟨obj, ?_, hkey, hadm⟩
    show storeReg c cv x.reg x.objs r k = some obj
    rw [storeReg_keeps_tracked c cv x.reg x.objs r k e he]; exact ho
  · refine ⟨{ reg := r, covert := cv.resolved.getD cv.raw }, ?_, rfl, hnew hv hp⟩
    show storeReg c cv x.reg x.objs r (keyOf r) = _
    exact storeReg_fresh c cv x.reg x.objs r hv hn

theorem storedOK_ingestRegsC (c : Cfg) (all : List WireC) (o : Oracles) (cv : Covert) (rs : List Reg) (x : StC)
    (hnew : ∀ r ∈ rs, validate c r = .ok () → passes c o r = true →
      ∃ w ∈ all, AdmittedBy c w { reg := r, covert := cv.resolved.getD cv.raw })
    (h : StoredOK c all x) : StoredOK c all (ingestRegsC c o cv x rs).1 := by
  induction rs generalizing x with
  | nil => exact h
  | cons r rs ih =>
    rw [ingestRegsC_cons]
    exact ih _ (fun r' hr' => hnew r' (List.mem_cons_of_mem _ hr'))
      (storedOK_ingestRegC c all o cv x r (hnew r List.mem_cons_self) h)

theorem storedOK_ingestWireC (c : Cfg) (all : List WireC) (x : StC) (w : WireC) (hw : w ∈ all)
    (hwf : WireC.WF w) (hsel : WireC.Sel w) (h : StoredOK c all x) : StoredOK c all (ingestWireC c x w).1 := by
  obtain ⟨ww, cv⟩ := w
  cases ww with
  | garbage => exact h
  | msg m o =>
    rw [ingestWireC_eq]
    apply storedOK_ingestRegsC c all o cv _ x _ h
    intro r hr hv hp
    obtain ⟨f, hf⟩ := mem_regs c m o r hr
    have hadm : admitB c m o f = true := (core_iff_admitB c m o f (hsel m o rfl)).mp ⟨r, hf, hv, hp⟩
    have hcov : o.covertOk = true := by
      unfold passes at hp
      simp only [Bool.and_eq_true] at hp
      exact hp.1.1
    have hres : cv.resolved.isSome = true := by rw [← hwf m o rfl]; exact hcov
    obtain ⟨a, ha⟩ := Option.isSome_iff_exists.mp hres
    refine ⟨_, hw, m, o, f, rfl, hf, (admitB_iff_conditions c m o f).mp hadm, ?_⟩
    show cv.resolved = some (cv.resolved.getD cv.raw)
    rw [ha]; rfl

theorem storedOK_runC (c : Cfg) (all : List WireC) (ws : List WireC) (x : StC)
    (hsub : ∀ w ∈ ws, w ∈ all) (hwf : ∀ w ∈ ws, WireC.WF w) (hsel : ∀ w ∈ ws, WireC.Sel w)
    (h : StoredOK c all x) : StoredOK c all (runC c x ws).1 := by
  induction ws generalizing x with
  | nil => exact h
  | cons w ws ih =>
    rw [runC_cons]
    exact ih _ (fun w' hw' => hsub w' (List.mem_cons_of_mem _ hw')) (fun w' hw' => hwf w' (List.mem_cons_of_mem _ hw'))
      (fun w' hw' => hsel w' (List.mem_cons_of_mem _ hw'))
      (storedOK_ingestWireC c all x w (hsub w List.mem_cons_self) (hwf w List.mem_cons_self) (hsel w List.mem_cons_self) h)

theorem storedOK_init (c : Cfg) (all : List WireC) : StoredOK c all StC.init := by
  rintro k ⟨e, he, _⟩
  have : get CJ.Registry.init k = none := by
    unfold CJ.Ingest.get CJ.Registry.init
    exact Std.HashMap.getElem?_empty
  rw [show StC.init.reg = CJ.Registry.init from rfl, this] at he
  cases he

/-- **C07 for sequences of messages.**  After any sequence of messages — any number of sessions, any
number of messages per session, each differing from the earlier ones in any fields — every
registration that is returned for an incoming connection is stored under its own (phantom, identifier)
and holds, field for field, the values of one message of the sequence that satisfied *every* admission
condition; its covert address is the covert policy's answer for the covert address of that message. -/
theorem connectable_holds_admitted_values (c : Cfg) (ws : List WireC)
    (hwf : ∀ w ∈ ws, WireC.WF w) (hsel : ∀ w ∈ ws, WireC.Sel w) :
    StoredOK c ws (runC c StC.init ws).1 :=
  storedOK_runC c ws ws StC.init (fun _ h => h) hwf hsel (storedOK_init c ws)

/-- … from any state in which it holds, for the messages received so far and those to come -/
theorem connectable_holds_admitted_values_from (c : Cfg) (pre ws : List WireC) (x : StC)
    (hwf : ∀ w ∈ ws, WireC.WF w) (hsel : ∀ w ∈ ws, WireC.Sel w) (h : StoredOK c pre x) :
    StoredOK c (pre ++ ws) (runC c x ws).1 :=
  storedOK_runC c (pre ++ ws) ws x (fun _ hw => List.mem_append_right _ hw) hwf hsel
    (fun k hk => by
      obtain ⟨obj, ho, hkey, w, hw, ha⟩ := h k hk
      exact ⟨obj, ho, hkey, w, List.mem_append_left _ hw, ha⟩)

/-! ### the admission predicate on the stored fields themselves -/

def famOf (ip : Bytes) : Fam := if isV4 ip then .v4 else .v6

/-- the admission conditions, read off the **stored** values (not off any message) -/
structure FieldsAdmissible (c : Cfg) (ws : List WireC) (obj : Obj) : Prop where
  transportEnabled : c.transports.contains obj.reg.transport = true
  phantomNotBlocklisted : blocklisted c obj.reg.phantom = false
  familyEnabled : enableOf c (famOf obj.reg.phantom) = true
  registrantWellFormed : validIP obj.reg.registrant = true
  familyConsistent : isV4 obj.reg.phantom = true → isV4 obj.reg.registrant = true
  /-- the stored covert address is an answer of the covert policy: never the address of a message the
  policy refused, never one the policy was not asked about -/
  covertVetted : ∃ w ∈ ws, w.cv.resolved = some obj.covert
  /-- stored as "needs a liveness probe" (IPv4 phantom, not pre-scanned): a message of the sequence that
  yields exactly this registration was probed and the phantom did not answer -/
  probedNotLive : needProbe obj.reg = true →
    ∃ w ∈ ws, ∃ m o f, w.w = .msg m o ∧ regOf c m o f = some obj.reg ∧ o.live = false

theorem fieldsAdmissible_of_admittedBy (c : Cfg) (ws : List WireC) (obj : Obj) (w : WireC) (hw : w ∈ ws)
    (hsel : WireC.Sel w) (h : AdmittedBy c w obj) : FieldsAdmissible c ws obj := by
  obtain ⟨m, o, f, hwm, hr, hc, hcov⟩ := h
  have hb := (regOf_some hr).2
  have hph := buildFam_phantom (hsel m o hwm) hb
  obtain ⟨ph, rnd, hs, _, hfam, hbl, hlive⟩ := hc.selected
  obtain ⟨ph', rnd', p, hs', _, _, _, _, _, _, _, hreg⟩ := (buildFam_ok_iff c m o f obj.reg).mp hb
  rw [hs] at hs'; cases hs'
  have hphantom : obj.reg.phantom = (overrideOf m f).getD ph := by rw [hreg]; rfl
  have hregistrant : obj.reg.registrant = registrantOf m := by rw [hreg]; rfl
  have htransport : obj.reg.transport = m.transport := by rw [hreg]; rfl
  have hpresc : obj.reg.prescanned = m.prescanned := by rw [hreg]; rfl
  refine ⟨?_, ?_, ?_, ?_, ?_, ⟨w, hw, hcov⟩, ?_⟩
  · rw [htransport]; exact hc.transportEnabled
  · rw [hphantom]; exact hbl
  · have : famOf obj.reg.phantom = f := by
      unfold famOf
      cases f with
      | v4 => rw [hph.1 rfl]; rfl
      | v6 => rw [(hph.2 rfl).2]; rfl
    rw [this]; exact hc.familyEnabled
  · rw [hregistrant]; exact hc.registrantWellFormed
  · rw [hphantom, hregistrant]; exact hfam
  · intro hnp
    unfold needProbe at hnp
    simp only [Bool.and_eq_true, Bool.not_eq_true'] at hnp
    refine ⟨w, hw, m, o, f, hwm, hr, hlive ?_ ?_⟩
    · rw [← hphantom]; exact hnp.2
    · rw [← hpresc]; exact hnp.1

/-- **Every connectable registration's stored fields satisfy the admission predicate**, for every
sequence of messages: enabled transport, phantom not blocklisted, family enabled on the station and
consistent with the registrant, a covert address that the covert policy answered, and — if it is stored
as needing a probe — a probe that was not answered. -/
theorem stored_fields_pass_admission (c : Cfg) (ws : List WireC)
    (hwf : ∀ w ∈ ws, WireC.WF w) (hsel : ∀ w ∈ ws, WireC.Sel w) (k : Key)
    (hk : validAt (runC c StC.init ws).1.reg k) :
    ∃ obj, (runC c StC.init ws).1.objs k = some obj ∧ keyOf obj.reg = k ∧ FieldsAdmissible c ws obj := by
  obtain ⟨obj, ho, hkey, w, hw, ha⟩ := connectable_holds_admitted_values c ws hwf hsel k hk
  exact ⟨obj, ho, hkey, fieldsAdmissible_of_admittedBy c ws obj w hw (hsel w hw) ha⟩

/-- in terms of `GetRegistrations`: a registration that a lookup returns -/
theorem returned_registration_fields (c : Cfg) (ws : List WireC)
    (hwf : ∀ w ∈ ws, WireC.WF w) (hsel : ∀ w ∈ ws, WireC.Sel w) (r : Reg)
    (hc : connectable (runC c StC.init ws).1.reg r = true) :
    ∃ obj, (runC c StC.init ws).1.objs (keyOf r) = some obj ∧ keyOf obj.reg = keyOf r ∧ FieldsAdmissible c ws obj :=
  stored_fields_pass_admission c ws hwf hsel (keyOf r) ((connectable_iff _ r).mp hc)

/-- **A covert address the policy never answered is never the covert address of a connectable
registration**: in particular the address of a later message of the session that the policy refuses
(its answer is `none`), or that the policy is never asked about because the message takes the duplicate
path. -/
theorem unvetted_covert_never_connectable (c : Cfg) (ws : List WireC)
    (hwf : ∀ w ∈ ws, WireC.WF w) (hsel : ∀ w ∈ ws, WireC.Sel w) (k : Key)
    (hk : validAt (runC c StC.init ws).1.reg k) (obj : Obj) (ho : (runC c StC.init ws).1.objs k = some obj)
    (a : String) (hnever : ∀ w ∈ ws, w.cv.resolved ≠ some a) : obj.covert ≠ a := by
  obtain ⟨obj', ho', _, hf⟩ := stored_fields_pass_admission c ws hwf hsel k hk
  rw [ho] at ho'; cases ho'
  obtain ⟨w', hw', hres⟩ := hf.covertVetted
  intro h
  exact hnever w' hw' (by rw [hres, h])

/-! ### the writes to a stored registration, as extracted from the source

`CJ.Gen.IngestWrites` is regenerated from the non-test files of pkg/station/lib on every run (go/ast, by
`go/harness/C07/zz_verif_c07_gen_test.go`).  `CJ.Ingest.storeReg` rests on three structural facts of the code, which
are read off the source here rather than assumed: the "already tracked" branch of `track` only counts; the
duplicate branch of `ingestRegistration` writes nothing and returns before the covert policy; the fields admission
looked at are written where the registration is built and nowhere else — except `reg.Covert`, written once, from the
covert policy's answer, after the "refused" return. -/
section extracted
open CJ.Gen.IngestWrites

/-- `storeReg`, duplicate case (`st` unchanged): the tracked object only has its counter bumped -/
theorem tracked_branch_only_counts : trackDupBranch = ["reg.regCount++", "return nil"] := by decide

/-- what the duplicate branch of `ingestRegistration` calls: logging, statistics, and `TrackRegistration` (→ `track`, whose
"already tracked" branch is `tracked_branch_only_counts`) -/
def dupCallsKnown : List String :=
  ["verifhook.Yield", "logger.Debugf", "reg.IDString", "Stat().AddDupReg", "Stat", "rm.AddDupReg", "rm.TrackRegistration",
   "logger.Errorln", "Stat().AddErrReg", "rm.AddErrReg"]

/-- `ingestReg` / `storeReg`, duplicate case: the branch assigns to nothing but local variables, calls nothing new, ends in
`return`, and comes before the covert policy is consulted -/
theorem ingest_duplicate_branch_writes_nothing :
    ingestDupAssigns = [] ∧ ingestDupReturns = true ∧ 0 ≤ ingestDupIndex ∧ ingestDupIndex < covertPolicyIndex ∧
      ∀ f ∈ ingestDupCalls, f ∈ dupCallsKnown := by decide

/-- `storeReg`, new registration: `reg.Covert` is written exactly once in `ingestRegistration`, from the variable that holds
the policy's answer, after the `covert == ""` return, with no other assignment to that variable in between -/
theorem covert_written_once_from_policy :
    covertWrites = ["reg.Covert = covert"] ∧ 0 ≤ covertPolicyIndex ∧ covertPolicyIndex < covertRefusedReturnIndex ∧
      covertRefusedReturnIndex < covertWriteIndex ∧ covertRedefined = false := by decide

/-- the fields of a `DecoyRegistration` that admission looked at (everything but counters, timestamps, GeoIP annotations,
the mask name and the validity flag) -/
def admittedFields : List String :=
  ["originalC2S", "PhantomIp", "PhantomPort", "PhantomProto", "registrationAddr", "Keys", "Covert", "Flags", "Transport",
   "TransportPtr", "transportParams", "RegistrationSource", "DecoyListVersion", "clientLibVer"]

theorem admittedFields_are_fields : ∀ f ∈ admittedFields, f ∈ regFields := by decide

/-- **No statement of the package writes an admitted field of a registration after it was built**: every assignment to
such a field (or to a whole object through a pointer) is in `NewRegistrationC2SWrapper` (the constructor), with the single
exception of `reg.Covert = covert` in `ingestRegistration`; `c2s.Flags = …` in `GenerateC2SWrapper` writes the outgoing copy
of the client's message, not the registration. -/
theorem admitted_fields_written_only_where_built :
    ∀ w ∈ fieldWrites, (w.2.2.1 ∈ admittedFields ∨ w.2.2.1 = "*") →
      w.1 = "RegistrationManager.NewRegistrationC2SWrapper" ∨ w.1 = "RegistrationManager.NewRegistration" ∨
      (w.1 = "RegistrationManager.ingestRegistration" ∧ w.2.1 = "reg" ∧ w.2.2.1 = "Covert") ∨
      (w.1 = "DecoyRegistration.GenerateC2SWrapper" ∧ w.2.1 = "c2s" ∧ w.2.2.1 = "Flags") := by decide

/-- … and the only addresses of fields that are handed out are the phantom address (`PhantomIP()`, read by the transports),
the protocol (read by `sendToDetector`) and the tunnel counter (atomic add in `Proxy`) -/
theorem field_addresses_taken_known :
    ∀ w ∈ fieldAddrs,
      (w.1, w.2.2.1) ∈ [("DecoyRegistration.PhantomIP", "PhantomIp"), ("sendToDetector", "PhantomProto"), ("Proxy", "tunnelCount")] := by
  decide

/-- the extractor saw the code: the counter, the validity flag and the covert write are in the table -/
theorem writes_table_nonempty :
    ("RegisteredDecoys.track", "reg", "regCount", "reg.regCount++") ∈ fieldWrites ∧
    ("RegisteredDecoys.register", "reg", "Valid", "reg.Valid = true") ∈ fieldWrites ∧
    ("RegistrationManager.ingestRegistration", "reg", "Covert", "reg.Covert = covert") ∈ fieldWrites := by decide

/-! #### the share request, the worker's treatment of `parseRegMessage`, the liveness branch -/

/-- **One POST per share, no loop, no second attempt**: in the whole package `tryShareRegistrationOverAPI` is called once (the `go`
statement of `ingestRegistration`, not in a loop), `executeHTTPRequest` is called once (in `tryShareRegistrationOverAPI`, not in a
loop — hence not again on an error path either), the only function of package `http` that is called is the single `http.Post`
of `executeHTTPRequest`, and neither sharing function contains a loop.  This is what `genShare` / `shareEvs` (one share event,
whose outcome no function of the model reads: `peer_answer_irrelevant`) rest on. -/
theorem share_request_sent_once_in_source :
    shareCalls = [("RegistrationManager.ingestRegistration", "tryShareRegistrationOverAPI", "-", "go"),
                  ("executeHTTPRequest", "http.Post", "-", "-"),
                  ("tryShareRegistrationOverAPI", "executeHTTPRequest", "-", "-")] ∧ shareLoops = [] := by decide

/-- **`parseRegMessage` answers an error only together with no registrations, and the worker ingests everything it answers
otherwise** (`parse`: `none` ↔ error; `ingestWire`: `none` → nothing, `some regs` → every registration): the three return
statements, the worker's two guards, and its loop over the registrations. -/
theorem worker_ingests_what_parse_returns :
    parseReturns = ["return nil, err", "return nil, firstErr", "return newRegs, nil"] ∧
      workerCallsParse = true ∧
      workerGuards = ["if err != nil { … continue }", "if len(newRegs) == 0 { … continue }"] ∧
      workerIngestsAll = true := by decide

/-- **The liveness branch looks at the boolean alone**: the statement after the probe is `if live { …; return }` without an else
branch, and neither `live` nor `response` is used afterwards (`ingestReg`: `if needProbe r && o.live then (s1, probes)`; no
function of the model reads `liveErr`: `verdict_error_irrelevant`). -/
theorem liveness_branch_on_boolean_alone : livenessBranch = ["if live", "return", "no else"] := by decide

end extracted

/-! ### the liveness verdict is a pair, the peer's answer a step without feedback

`LivenessTester.PhantomIsLive` answers `(live, err)`.  The real testers pair `true` with `ErrLiveHost` or the dial error,
`false` with `NotLive`, and **either** boolean with `ErrCachedPhantom` when the verdict is served from a cache.
`ingestRegistration` decides on the boolean alone.  How `(false, err)` with `err ≠ NotLive` is read: as "the phantom did
not answer" — that is what the unchanged code does, it is pinned by the correspondence on the full product
{true, false} × {usual companion, nil, ErrCachedPhantom, other error, context error, the other boolean's companion}, and it
is what the property says (the condition is about the probe being answered, not about how the tester learnt it).

The share request is `go tryShareRegistrationOverAPI(…)`: one POST whose outcome is logged and feeds back into nothing. -/

theorem ingestReg_liveErr (c : Cfg) (o : Oracles) (s : RSt) (r : Reg) (e : Nat) :
    ingestReg c { o with liveErr := e } s r = ingestReg c o s r := rfl

theorem ingestReg_peer (c : Cfg) (o : Oracles) (s : RSt) (r : Reg) (p : Nat) :
    ingestReg c { o with peer := p } s r = ingestReg c o s r := rfl

theorem ingestRegs_congr (c : Cfg) (o o' : Oracles) (h : ∀ s r, ingestReg c o' s r = ingestReg c o s r) (rs : List Reg) (s : RSt) :
    ingestRegs c o' s rs = ingestRegs c o s rs := by
  induction rs generalizing s with
  | nil => rfl
  | cons r rs ih => simp only [ingestRegs, h, ih]

theorem parse_liveErr (c : Cfg) (m : Msg) (o : Oracles) (e : Nat) :
    parse c (.msg m { o with liveErr := e }) = parse c (.msg m o) := rfl

theorem parse_peer (c : Cfg) (m : Msg) (o : Oracles) (p : Nat) :
    parse c (.msg m { o with peer := p }) = parse c (.msg m o) := rfl

/-- **The error component of the verdict is irrelevant**: whatever error accompanies the boolean — none, `NotLive`,
`ErrLiveHost`, `ErrCachedPhantom`, a context error, anything else — the message is parsed, tracked, probed, shared,
admitted and announced exactly as with the usual companion of that boolean. -/
theorem verdict_error_irrelevant (c : Cfg) (s : RSt) (m : Msg) (o : Oracles) (e : Nat) :
    ingestWire c s (.msg m { o with liveErr := e }) = ingestWire c s (.msg m o) := by
  unfold ingestWire
  rw [parse_liveErr]
  cases parse c (.msg m o) with
  | none => rfl
  | some regs => exact ingestRegs_congr c o _ (fun s r => ingestReg_liveErr c o s r e) regs s

/-- **The peer's answer is irrelevant**: 2xx, 4xx, 5xx, a connection closed without reply, a slow or an unreachable peer —
nothing the station does with the message (in particular no further share request) depends on it. -/
theorem peer_answer_irrelevant (c : Cfg) (s : RSt) (m : Msg) (o : Oracles) (p : Nat) :
    ingestWire c s (.msg m { o with peer := p }) = ingestWire c s (.msg m o) := by
  unfold ingestWire
  rw [parse_peer]
  cases parse c (.msg m o) with
  | none => rfl
  | some regs => exact ingestRegs_congr c o _ (fun s r => ingestReg_peer c o s r p) regs s

theorem selectorFam_liveErr {o : Oracles} (hsel : SelectorFam o) (b : Bool) (e : Nat) :
    SelectorFam { o with live := b, liveErr := e } :=
  ⟨fun ph rnd h => hsel.v4 ph rnd h, fun ph rnd h => hsel.v6 ph rnd h⟩

/-- **A live verdict never admits**, for every error component: an IPv4 registration that was not pre-scanned is not
admitted when the tester's boolean says the phantom answered — fresh (`ErrLiveHost`, a dial error), served from the cache
(`ErrCachedPhantom`), or with any other error or none. -/
theorem live_verdict_never_admitted (c : Cfg) (s : RSt) (m : Msg) (o : Oracles) (f : Fam) (hsel : SelectorFam o) (e : Nat)
    (ph : Bytes) (rnd : Bool) (hs : selOf o f = some (ph, rnd))
    (h4 : isV4 ((overrideOf m f).getD ph) = true) (hps : m.prescanned = false) :
    ¬ admitted c s m { o with live := true, liveErr := e } f := by
  apply flip_liveness c s m _ f (selectorFam_liveErr hsel true e) ph rnd _ h4 hps rfl
  cases f <;> exact hs

/-- … and a live verdict leaves no trace beyond the probe: nothing is shared or announced for that registration, and it
is not returned for connections (on a fresh registry) -/
theorem live_verdict_not_visible (c : Cfg) (m : Msg) (o : Oracles) (f : Fam) (hsel : SelectorFam o) (e : Nat)
    (ph : Bytes) (rnd : Bool) (hs : selOf o f = some (ph, rnd))
    (h4 : isV4 ((overrideOf m f).getD ph) = true) (hps : m.prescanned = false)
    (r : Reg) (hr : regOf c m { o with live := true, liveErr := e } f = some r) :
    connectable (ingestWire c CJ.Registry.init (.msg m { o with live := true, liveErr := e })).1 r = false ∧
      Ev.announce r ∉ (ingestWire c CJ.Registry.init (.msg m { o with live := true, liveErr := e })).2 := by
  have hsel' := selectorFam_liveErr hsel true e
  have hs' : selOf { o with live := true, liveErr := e } f = some (ph, rnd) := by cases f <;> exact hs
  apply never_visible_otherwise c _ m _ f hsel' _ r hr
  · rintro ⟨e', he', _⟩
    have : get CJ.Registry.init (keyOf r) = none := by
      unfold CJ.Ingest.get CJ.Registry.init; exact Std.HashMap.getElem?_empty
    rw [this] at he'; cases he'
  · cases hb : admitB c m { o with live := true, liveErr := e } f
    · rfl
    · have := (admitB_iff_conditions c m _ f).mp hb
      obtain ⟨ph', rnd', hs'', _, _, _, hl⟩ := this.selected
      rw [hs'] at hs''; cases hs''
      have := hl h4 hps
      cases this

/-- **A "not live" boolean passes the probe whatever error comes with it** (the reading of `(false, err ≠ NotLive)`): the
admission of the message is that of the same message with the plain `(false, NotLive)` verdict. -/
theorem not_live_verdict_reading (c : Cfg) (s : RSt) (m : Msg) (o : Oracles) (f : Fam) (e : Nat) :
    admitted c s m { o with live := false, liveErr := e } f ↔ admitted c s m { o with live := false } f := by
  have h := verdict_error_irrelevant c s m { o with live := false } e
  have hreg : regOf c m { o with live := false, liveErr := e } f = regOf c m { o with live := false } f := by
    cases f <;> rfl
  unfold admitted
  rw [show ({ o with live := false, liveErr := e } : Oracles) = { ({ o with live := false } : Oracles) with liveErr := e } from rfl,
    h]
  rw [show ({ ({ o with live := false } : Oracles) with liveErr := e } : Oracles) = { o with live := false, liveErr := e } from rfl, hreg]

/-- replace the peer's answer in every message by an arbitrary one -/
def withPeer (g : Wire → Nat) : Wire → Wire
  | .garbage => .garbage
  | .msg m o => .msg m { o with peer := g (.msg m o) }

theorem ingestWire_withPeer (c : Cfg) (s : RSt) (g : Wire → Nat) (w : Wire) :
    ingestWire c s (withPeer g w) = ingestWire c s w := by
  cases w with
  | garbage => rfl
  | msg m o => exact peer_answer_irrelevant c s m o _

theorem run_withPeer (c : Cfg) (g : Wire → Nat) (ws : List Wire) (s : RSt) :
    run c s (ws.map (withPeer g)) = run c s ws := by
  induction ws generalizing s with
  | nil => rfl
  | cons w ws ih => simp only [List.map_cons, run_cons, ingestWire_withPeer, ih]

/-- **A share is attempted at most once per client registration, whatever the peers answer**: in any run of messages from
any registry and under any assignment of peer behaviours to the messages, at most one share request is made for a
registration (key) — the run does not depend on the answers at all, so no answer (an error status, a lost reply) can cause
a second request. -/
theorem share_attempted_at_most_once (c : Cfg) (s : RSt) (ws : List Wire) (g : Wire → Nat) (k : Key) :
    run c s (ws.map (withPeer g)) = run c s ws ∧ (run c s (ws.map (withPeer g))).2.countP (isShareOf k) ≤ 1 := by
  refine ⟨run_withPeer c g ws s, ?_⟩
  rw [run_withPeer]
  exact (share_at_most_once c s ws k).1

/-! ### non-vacuity -/

def cvOk : Covert := { raw := "192.0.2.77:443", resolved := some "192.0.2.77:443" }
def cvRefused : Covert := { raw := "10.1.2.3:443", resolved := none }

/-- the admitted base message of `CJ.Props.C07`, then the same session again with a covert address the
policy refuses -/
def wOk : WireC := { w := .msg m0 o0, cv := cvOk }
def wRefused : WireC := { w := .msg m0 { o0 with covertOk := false }, cv := cvRefused }

example : WireC.WF wOk := by intro m o h; cases h; rfl
example : WireC.WF wRefused := by intro m o h; cases h; rfl
example : WireC.Sel wOk := by
  intro m o h; cases h
  exact ⟨by intro ph rnd h; cases h; decide, by intro ph rnd h; cases h; decide⟩

/-- the first message makes its IPv4 registration connectable (so the theorems above speak about
something), and the refused covert address of the second message never becomes its covert address -/
example : ∃ r, regOf c0 m0 o0 .v4 = some r ∧ connectable (runC c0 StC.init [wOk]).1.reg r = true := by
  have hsel : SelectorFam o0 := ⟨by intro ph rnd h; cases h; decide, by intro ph rnd h; cases h; decide⟩
  have hadm : admitted c0 CJ.Registry.init m0 o0 .v4 :=
    (admitted_iff c0 _ m0 o0 .v4 hsel (fresh_init c0 m0 o0)).mpr (by decide)
  obtain ⟨r, hr, hc, _⟩ := hadm
  refine ⟨r, hr, ?_⟩
  have h1 := (runC_reg c0 [wOk] StC.init).1
  rw [h1]
  show connectable (run c0 CJ.Registry.init [Wire.msg m0 o0]).1 r = true
  simp only [run]
  exact hc

/-- … and after the second message of the session (refused covert address) the stored covert address
of that connectable registration is still the policy's answer for the first message -/
example : ∃ r, regOf c0 m0 o0 .v4 = some r ∧ connectable (runC c0 StC.init [wOk, wRefused]).1.reg r = true ∧
    ((runC c0 StC.init [wOk, wRefused]).1.objs (keyOf r)).map (·.covert) = some "192.0.2.77:443" := by
  have hsel : SelectorFam o0 := ⟨by intro ph rnd h; cases h; decide, by intro ph rnd h; cases h; decide⟩
  have hwf1 : ∀ w ∈ [wOk], WireC.WF w := by
    intro w hw; simp only [List.mem_singleton] at hw; subst hw; intro m o h; cases h; rfl
  have hsel1 : ∀ w ∈ [wOk], WireC.Sel w := by
    intro w hw; simp only [List.mem_singleton] at hw; subst hw; intro m o h; cases h; exact hsel
  obtain ⟨r, hr, hc, _⟩ : admitted c0 CJ.Registry.init m0 o0 .v4 :=
    (admitted_iff c0 _ m0 o0 .v4 hsel (fresh_init c0 m0 o0)).mpr (by decide)
  have hc1 : connectable (runC c0 StC.init [wOk]).1.reg r = true := by
    rw [(runC_reg c0 [wOk] StC.init).1]
    show connectable (run c0 CJ.Registry.init [Wire.msg m0 o0]).1 r = true
    simp only [run]; exact hc
  have hv1 := (connectable_iff _ r).mp hc1
  obtain ⟨obj, ho, _, w, hw, _, _, _, _, _, _, hcov⟩ := connectable_holds_admitted_values c0 [wOk] hwf1 hsel1 _ hv1
  simp only [List.mem_singleton] at hw; subst hw
  obtain ⟨e, he, hval⟩ := hv1
  have hsplit : runC c0 StC.init [wOk, wRefused] =
      ((runC c0 (runC c0 StC.init [wOk]).1 [wRefused]).1,
        (runC c0 StC.init [wOk]).2 ++ (runC c0 (runC c0 StC.init [wOk]).1 [wRefused]).2) := by
    simp [runC]
  have hobj := tracked_object_immutable c0 [wRefused] (runC c0 StC.init [wOk]).1 (keyOf r) e he
  obtain ⟨_, e', he'⟩ := tracked_object_wire c0 (runC c0 StC.init [wOk]).1 wRefused (keyOf r) e he
  refine ⟨r, hr, ?_, ?_⟩
  · rw [hsplit, connectable_iff]
    have hdup := (validAt_ingestReg c0 { o0 with covertOk := false } (runC c0 StC.init [wOk]).1.reg r (keyOf r)).mpr
      (Or.inl ⟨e, he, hval⟩)
    rw [(runC_reg c0 [wRefused] (runC c0 StC.init [wOk]).1).1]
    show validAt (run c0 (runC c0 StC.init [wOk]).1.reg [Wire.msg m0 { o0 with covertOk := false }]).1 (keyOf r)
    simp only [run]
    rw [ingestWire_eq]
    -- both registrations of the second message are validated duplicates or untracked: validity of `r` is kept
    generalize (regOf c0 m0 { o0 with covertOk := false } Fam.v4).toList ++
      (regOf c0 m0 { o0 with covertOk := false } Fam.v6).toList = rs
    clear hdup he' hobj hsplit
    generalize (runC c0 StC.init [wOk]).1.reg = s at he
    induction rs generalizing s e with
    | nil => exact ⟨e, he, hval⟩
    | cons r' rs ih =>
      rw [ingestRegs_cons]
      have hv' := (validAt_ingestReg c0 { o0 with covertOk := false } s r' (keyOf r)).mpr (Or.inl ⟨e, he, hval⟩)
      obtain ⟨e2, he2, hval2⟩ := hv'
      exact ih e2 hval2 _ he2
  · rw [hsplit]
    show ((runC c0 (runC c0 StC.init [wOk]).1 [wRefused]).1.objs (keyOf r)).map (·.covert) = _
    rw [hobj, ho]
    have : wOk.cv.resolved = some "192.0.2.77:443" := rfl
    rw [this] at hcov
    show some obj.covert = some "192.0.2.77:443"
    exact hcov.symm

end CJ.Props.C07
