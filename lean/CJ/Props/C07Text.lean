import CJ.Props.C07Seq
import CJ.Props.C06Addr
import CJ.Model.IngestText
/-!
# C07 with the admission lists computed from their configured text

`CJ.Props.C07` / `C07Seq` quantify over every station configuration `Cfg` and take the covert verdict of a message as a
library verdict tied to the message's covert address by the assumption `WireC.WF`.  Here the phantom blocklist is what
`ParseBlocklists` builds from the strings of `phantom_blocklist` (`CJ.IngestText.phantomBlocklist`) and the covert
verdict of a message with a literal covert address is what `ParseOrResolveBlocklisted` computes from the strings of
`covert_blocklist_subnets` / `covert_allowlist_subnets` (`CJ.IngestText.covertOfLit` over C06's `admitLit`):

* `parseCIDR_of_cidrEntry`: the parser used here is `CJ.NetAddr.parseCIDR` (C06's, corresponded with the stdlib);
* `bad_entry_refuses_config`: one entry that does not parse refuses the whole list — no part of it is silently dropped;
* `text_blocklist_iff`: a phantom is blocklisted iff one configured string (trimmed, parsed) contains it;
* `prefixBitsEq_refl`, `entry_contains_own_network`-style facts about the bit-prefix comparison including its
  partial-byte arm;
* `text_blocklisted_never_admitted`: the admission clause "its phantom is not blocklisted" on the configured text;
* `litWire_WF`, `lit_connectable_covert_permitted`: for literal covert addresses `WireC.WF` is a theorem, and the covert
  address of every connectable registration is a literal the configured policy permits (C06's `PermittedLiteral`).
-/
namespace CJ.Props.C07
open CJ.Ingest CJ.IngestText CJ.NetAddr
open CJ.Detector (Bytes)
open CJ.Registry (Key)

/-! ## the parser -/

/-- `cidrEntry` is `net.ParseCIDR` as modelled for C06, with the prefix length kept -/
theorem parseCIDR_of_cidrEntry (s : Str) : parseCIDR s = (cidrEntry s).map Entry.ipnet := by
  unfold parseCIDR cidrEntry Entry.ipnet
  repeat' split
  all_goals (try simp_all)
  all_goals omega

/-- what `mapM` over `Option` returns: every input has an image, and the images are exactly the outputs -/
theorem mapM_some_mem {α β : Type} (f : α → Option β) : ∀ (l : List α) (r : List β), l.mapM f = some r →
    ∀ y, y ∈ r ↔ ∃ x ∈ l, f x = some y
  | [], r, h, y => by
    simp at h; subst h; simp
  | a :: l, r, h, y => by
    rw [List.mapM_cons] at h
    cases hfa : f a with
    | none => simp [hfa] at h
    | some b =>
      cases hl : l.mapM f with
      | none => simp [hfa, hl] at h
      | some bs =>
        simp [hfa, hl] at h
        subst h
        have ih := mapM_some_mem f l bs hl y
        constructor
        · intro hy
          rcases List.mem_cons.mp hy with rfl | hy
          · exact ⟨a, List.mem_cons_self, hfa⟩
          · obtain ⟨x, hx, hfx⟩ := ih.mp hy
            exact ⟨x, List.mem_cons_of_mem _ hx, hfx⟩
        · rintro ⟨x, hx, hfx⟩
          rcases List.mem_cons.mp hx with rfl | hx
          · rw [hfa] at hfx; cases hfx; exact List.mem_cons_self
          · exact List.mem_cons_of_mem _ (ih.mpr ⟨x, hx, hfx⟩)

theorem mapM_none_of_mem {α β : Type} (f : α → Option β) : ∀ (l : List α) (x : α), x ∈ l → f x = none → l.mapM f = none
  | a :: l, x, hx, hfx => by
    rw [List.mapM_cons]
    rcases List.mem_cons.mp hx with rfl | hx
    · simp [hfx]
    · cases hfa : f a with
      | none => simp
      | some b => simp [mapM_none_of_mem f l x hx hfx]

/-- **One entry that does not parse refuses the whole list**: a typo cannot silently disable part of the phantom
blocklist (the station does not start). -/
theorem bad_entry_refuses_config (texts : List String) (t : String) (ht : t ∈ texts)
    (hbad : cidrEntry (trimSpace t.toList) = none) : phantomBlocklist texts = none :=
  mapM_none_of_mem _ texts t ht (by simp [hbad])

/-- **A phantom is blocklisted iff a configured string contains it**: trimmed, parsed by `net.ParseCIDR`, read the way
`Contains` reads the network. -/
theorem text_blocklist_iff (e4 e6 share : Bool) (trs : List Nat) (texts : List String) (c : Cfg)
    (hc : cfgOfText e4 e6 share trs texts = some c) (ip : Bytes) :
    blocklisted c ip = true ↔
      ∃ t ∈ texts, ∃ e, cidrEntry (trimSpace t.toList) = some e ∧ netContains (toEntry e) ip = true := by
  unfold cfgOfText at hc
  cases hb : phantomBlocklist texts with
  | none => simp [hb] at hc
  | some bl =>
    simp [hb] at hc
    subst hc
    have hm := mapM_some_mem _ texts bl hb
    simp only [blocklisted, List.any_eq_true]
    constructor
    · rintro ⟨n, hn, hcont⟩
      obtain ⟨t, ht, hft⟩ := (hm n).mp hn
      cases he : cidrEntry (trimSpace t.toList) with
      | none => simp [he] at hft
      | some e =>
        simp [he] at hft
        exact ⟨t, ht, e, he, by rw [hft]; exact hcont⟩
    · rintro ⟨t, ht, e, he, hcont⟩
      exact ⟨toEntry e, (hm _).mpr ⟨t, ht, by simp [he]⟩, hcont⟩

/-- the flags of a configuration built from text are the ones given -/
theorem cfgOfText_flags (e4 e6 share : Bool) (trs : List Nat) (texts : List String) (c : Cfg)
    (hc : cfgOfText e4 e6 share trs texts = some c) :
    c.enableV4 = e4 ∧ c.enableV6 = e6 ∧ c.shareOverAPI = share ∧ c.transports = trs := by
  unfold cfgOfText at hc
  cases hb : phantomBlocklist texts with
  | none => simp [hb] at hc
  | some bl => simp [hb] at hc; subst hc; exact ⟨rfl, rfl, rfl, rfl⟩

/-! ## the bit-prefix comparison, partial-byte arm included -/

/-- every address agrees with itself on every prefix it is long enough for -/
theorem prefixBitsEq_refl : ∀ (a : Bytes) (n : Nat), n ≤ 8 * a.length → prefixBitsEq n a a = true
  | [], n, h => by
    have : n = 0 := by simpa using h
    subst this; simp [prefixBitsEq]
  | x :: xs, n, h => by
    unfold prefixBitsEq
    by_cases h0 : n = 0
    · simp [h0]
    · by_cases h8 : n ≥ 8
      · simp only [h0, h8, if_false, if_true, beq_self_eq_true, Bool.true_and]
        exact prefixBitsEq_refl xs (n - 8) (by simp [List.length_cons] at h; omega)
      · simp [h0, h8]

/-- a prefix of zero bits holds every address of the network's length (`0.0.0.0/0`, `::/0`) -/
theorem prefixBitsEq_zero (a b : Bytes) (h : a.length = b.length) : prefixBitsEq 0 a b = true := by
  cases a <;> cases b <;> simp_all [prefixBitsEq]

/-- the partial-byte arm compares exactly the leading `n` bits of the byte: two bytes that differ only below them agree,
two bytes that differ in one of them do not (here for every `n` from 1 to 7, on the last prefix bit and the first host bit) -/
theorem partial_byte_arm (n : Nat) (hn : 0 < n) (h8 : n < 8) (x y : UInt8) (rest rest' : Bytes) :
    prefixBitsEq n (x :: rest) (y :: rest') = (x.toNat / 2 ^ (8 - n) == y.toNat / 2 ^ (8 - n)) := by
  unfold prefixBitsEq
  have h0 : n ≠ 0 := by omega
  have h8' : ¬ n ≥ 8 := by omega
  simp [h0, h8']

/-- a network whose own address is a 4- or 16-byte address contains that address (`Contains(IPNet.IP)`), whatever the
prefix length — aligned or not -/
theorem network_contains_itself (net : Bytes) (n : Nat) (hn : n ≤ 8 * (canon net).length) :
    netContains (net, n) net = true := by
  simp [netContains, prefixBitsEq_refl _ _ hn]

/-! ## the admission clause on the configured text -/

/-- **"… its phantom is not blocklisted", from the configuration text.**  On a station whose `phantom_blocklist` is
`texts`, a message whose phantom (the selector's, or the registrar's override) lies inside one of the configured
strings is not admitted — whatever every other condition says. -/
theorem text_blocklisted_never_admitted (e4 e6 share : Bool) (trs : List Nat) (texts : List String) (c : Cfg)
    (hc : cfgOfText e4 e6 share trs texts = some c) (s : RSt) (m : Msg) (o : Oracles) (f : Fam) (hsel : SelectorFam o)
    (ph : Bytes) (rnd : Bool) (hs : selOf o f = some (ph, rnd))
    (t : String) (ht : t ∈ texts) (e : Entry) (he : cidrEntry (trimSpace t.toList) = some e)
    (hin : netContains (toEntry e) ((overrideOf m f).getD ph) = true) : ¬ admitted c s m o f :=
  flip_blocklist c s m o f hsel ph rnd hs
    ((text_blocklist_iff e4 e6 share trs texts c hc _).mpr ⟨t, ht, e, he, hin⟩)

/-! ## the covert verdict of a literal covert address is computed, not assumed -/

abbrev LitPolicy := CJ.Covert.Policy IPNet Unit

/-- for a message whose covert verdict is computed from its covert string, `WireC.WF` holds -/
theorem litWire_WF (pol : LitPolicy) (m : Msg) (o : Oracles) (raw : String) (w : WireC)
    (h : litWire pol m o raw = some w) : WireC.WF w := by
  unfold litWire at h
  cases hcv : covertOfLit pol raw with
  | none => simp [hcv] at h
  | some cv =>
    simp [hcv] at h
    subst h
    intro m' o' hw
    cases hw
    rfl

/-- a message built by `litWire` carries the covert string it was given, and its stored answer is `admitLit`'s -/
theorem litWire_answer (pol : LitPolicy) (m : Msg) (o : Oracles) (raw : String) (w : WireC)
    (h : litWire pol m o raw = some w) (a : String) (ha : w.cv.resolved = some a) :
    ∃ r, CJ.CovertLit.admitLit noPatterns pol raw = some r ∧ r.out = a ∧ r.out ≠ "" := by
  unfold litWire at h
  cases hcv : covertOfLit pol raw with
  | none => simp [hcv] at h
  | some cv =>
    simp [hcv] at h
    subst h
    unfold covertOfLit at hcv
    cases hr : CJ.CovertLit.admitLit noPatterns pol raw with
    | none => simp [hr] at hcv
    | some r =>
      simp [hr] at hcv
      subst hcv
      simp only at ha
      by_cases hout : r.out = ""
      · simp [hout] at ha
      · simp [hout] at ha
        exact ⟨r, rfl, ha, hout⟩

/-- the messages of a history whose covert verdicts are all computed from literal covert strings -/
def LitHistory (pol : LitPolicy) (ws : List WireC) : Prop :=
  ∀ w ∈ ws, ∃ m o raw, litWire pol m o raw = some w

/-- **C07's covert clause for literal covert addresses, with nothing assumed about the policy's verdict.**  After any
sequence of messages whose covert strings the station decides without a resolver, the covert address stored in every
connectable registration is the answer `ParseOrResolveBlocklisted` computed for the covert string of one message of
the sequence, and that string is a literal the configured lists permit: it splits into host and port, the port is a
decimal uint16, the host is an address literal without zone, not the unspecified address, not forbidden by the
configured prefixes (mask arithmetic on the networks `ParseCIDR` built), and the stored text is
`JoinHostPort(IP.String(), port)`. -/
theorem lit_connectable_covert_permitted (c : Cfg) (pol : LitPolicy) (ws : List WireC)
    (hlit : LitHistory pol ws) (hsel : ∀ w ∈ ws, WireC.Sel w) (k : Key)
    (hk : validAt (runC c StC.init ws).1.reg k) :
    ∃ obj, (runC c StC.init ws).1.objs k = some obj ∧
      ∃ raw r, CJ.CovertLit.admitLit noPatterns pol raw = some r ∧ r.out = obj.covert ∧
        CJ.Props.C06Addr.PermittedLiteral noPatterns pol raw r := by
  have hwf : ∀ w ∈ ws, WireC.WF w := fun w hw => by
    obtain ⟨m, o, raw, h⟩ := hlit w hw
    exact litWire_WF pol m o raw w h
  obtain ⟨obj, ho, _, hf⟩ := stored_fields_pass_admission c ws hwf hsel k hk
  obtain ⟨w, hw, hres⟩ := hf.covertVetted
  obtain ⟨m, o, raw, h⟩ := hlit w hw
  obtain ⟨r, hr, hout, hne⟩ := litWire_answer pol m o raw w h obj.covert hres
  exact ⟨obj, ho, raw, r, hr, hout, CJ.Props.C06Addr.literal_accepted_is_permitted noPatterns pol raw r hr hne⟩

/-! ## the hypotheses are satisfiable -/

section examples

def textsEx : List String := [" 192.122.192.0/22", "2001:48a8:687f:2::/63\t", "::ffff:192.122.188.0/118"]

example : (cfgOfText true true true [0, 3] textsEx).isSome = true := by decide
example : phantomBlocklist ["192.122.0.0/16", "192.122.0.0/33"] = none := by decide
example : cidrEntry (trimSpace " 192.122.192.0/22".toList) = some ⟨[192, 122, 192, 0], 22, 4⟩ := by decide
-- both sides of a boundary that lies inside a byte, and the IPv4-mapped spelling
example : netContains (toEntry ⟨[192, 122, 192, 0], 22, 4⟩) [192, 122, 195, 255] = true := by decide
example : netContains (toEntry ⟨[192, 122, 192, 0], 22, 4⟩) [192, 122, 196, 0] = false := by decide
example : (cidrEntry (trimSpace "::ffff:192.122.188.0/118".toList)).map toEntry = some ([192, 122, 188, 0], 22) := by decide

def polEx : Option LitPolicy := covertPolicy ["10.0.0.0/8 "] []

end examples

end CJ.Props.C07
