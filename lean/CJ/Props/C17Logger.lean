import CJ.Model.Logger
import CJ.Model.LogTaint
import CJ.Gen.LogSites
/-!
# C17 — the logger itself: what reaches the sink is a function of the history

`CJ.Props.C17` judges every logger *call site* that is emitted at the default level.  This file closes the step
from call sites to the sink for the code of `pkg/station/log/logger.go` (model `CJ.Logger`, corresponded line by
line with the real package on histories of `SetLevel` / `New` / `(*Logger).SetLevel` / `SetPrefix` / calls of
every family and form): for **every** history,

* the sink holds nothing but newlines, logger prefixes and the texts of `Error*/Info*/Print*` calls, as long as
  no level below `ErrorLevel` was ever set (`sink_clean`, with any predicate on the alphabet — `noAddr` for C17);
* the calls of the silent families (`Trace*/Debug*/Warn*`) can be erased from the history without changing a
  byte of the sink (`quiet_calls_erasable`);
* a logger keeps the level the package had when it was created (`new_captures_level`,
  `package_setLevel_keeps_loggers`);
* `UnknownLevel` — what `ParseLevel` returns together with its error — passes every level test
  (`unknown_level_emits_everything`), and `ParseLevel` returns it exactly for the strings that lower-case to none of
  the five names (`parseLevel_none_iff`);
* the level table observed on the code under check (`CJ.Gen.levelEmitted`) is the model's `emits` at the default
  level (`level_table_is_model`).
-/
namespace CJ.Props.C17
open CJ.Logger

section
variable {α : Type} [DecidableEq α]

/-- the state holds only `P`-elements and no level below `ErrorLevel` -/
structure StGood (P : α → Prop) (s : St α) : Prop where
  global : errorLevel ≤ s.global
  loggers : ∀ lg ∈ s.loggers, errorLevel ≤ lg.level ∧ ∀ x ∈ lg.pfx, P x
  std : ∀ x ∈ s.stdPfx, P x
  sink : ∀ x ∈ s.sink, P x

/-- the operation sets no level below `ErrorLevel`, installs only `P`-prefixes, and — if it is a call of a
family that is not silent — prints a `P`-text -/
def OpGood (P : α → Prop) : Op α → Prop
  | .setLevel l => errorLevel ≤ l
  | .new p => ∀ x ∈ p, P x
  | .lSetLevel _ l => errorLevel ≤ l
  | .lSetPrefix _ p => ∀ x ∈ p, P x
  | .setStdPrefix p => ∀ x ∈ p, P x
  | .call _ m _ msg => m.quiet = false → ∀ x ∈ msg, P x

theorem emits_quiet_false {cur : Level} {m : Meth} (h : errorLevel ≤ cur) (hq : m.quiet = true) :
    emits cur m = false := by
  have h4 : (4 : Int) ≤ cur := h
  cases m <;> simp [Meth.quiet] at hq <;>
    (simp [emits, Meth.level, traceLevel, debugLevel, warnLevel]; omega)

theorem outLine_good (P : α → Prop) (nl : α) (hnl : P nl) (pfx : List α) (f : Form) (msg : List α)
    (hp : ∀ x ∈ pfx, P x) (hm : ∀ x ∈ msg, P x) : ∀ x ∈ outLine nl pfx (body nl f msg), P x := by
  intro x hx
  have hb : ∀ y ∈ body nl f msg, P y := by
    intro y hy
    cases f <;> simp [body] at hy
    · exact hm y hy
    · rcases hy with hy | hy
      · exact hm y hy
      · exact hy ▸ hnl
    · exact hm y hy
  simp only [outLine, List.mem_append] at hx
  rcases hx with (hx | hx) | hx
  · exact hp x hx
  · exact hb x hx
  · split at hx
    · simp at hx
    · simp at hx; exact hx ▸ hnl

theorem step_good (P : α → Prop) (nl : α) (hnl : P nl) (s s' : St α) (o : Op α)
    (hs : StGood P s) (ho : OpGood P o) (h : step nl s o = some s') : StGood P s' := by
  cases o with
  | setLevel l =>
    simp [step] at h; subst h
    exact ⟨ho, hs.loggers, hs.std, hs.sink⟩
  | new p =>
    simp [step] at h; subst h
    refine ⟨hs.global, ?_, hs.std, hs.sink⟩
    intro lg hlg
    simp at hlg
    rcases hlg with hlg | hlg
    · exact hs.loggers lg hlg
    · subst hlg; exact ⟨hs.global, ho⟩
  | lSetLevel i l =>
    simp only [step] at h
    split at h
    · simp at h
    · rename_i lg hlg
      simp at h; subst h
      refine ⟨hs.global, ?_, hs.std, hs.sink⟩
      intro lg' hlg'
      rcases List.mem_or_eq_of_mem_set hlg' with hm | hm
      · exact hs.loggers lg' hm
      · subst hm
        exact ⟨ho, (hs.loggers lg (List.mem_of_getElem? hlg)).2⟩
  | lSetPrefix i p =>
    simp only [step] at h
    split at h
    · simp at h
    · rename_i lg hlg
      simp at h; subst h
      refine ⟨hs.global, ?_, hs.std, hs.sink⟩
      intro lg' hlg'
      rcases List.mem_or_eq_of_mem_set hlg' with hm | hm
      · exact hs.loggers lg' hm
      · subst hm
        exact ⟨(hs.loggers lg (List.mem_of_getElem? hlg)).1, ho⟩
  | setStdPrefix p =>
    simp [step] at h; subst h
    exact ⟨hs.global, hs.loggers, ho, hs.sink⟩
  | call tgt m f msg =>
    cases tgt with
    | none =>
      simp only [step, Option.some.injEq] at h
      subst h
      split
      · rename_i he
        have hq : m.quiet = false := by
          cases hq : m.quiet
          · rfl
          · rw [emits_quiet_false hs.global hq] at he; simp at he
        refine ⟨hs.global, hs.loggers, hs.std, ?_⟩
        intro x hx
        simp only [List.mem_append] at hx
        rcases hx with hx | hx
        · exact hs.sink x hx
        · exact outLine_good P nl hnl _ f msg hs.std (ho hq) x hx
      · exact hs
    | some i =>
      simp only [step] at h
      split at h
      · simp at h
      · rename_i lg hlg
        simp only [Option.some.injEq] at h
        subst h
        have hl := hs.loggers lg (List.mem_of_getElem? hlg)
        split
        · rename_i he
          have hq : m.quiet = false := by
            cases hq : m.quiet
            · rfl
            · rw [emits_quiet_false hl.1 hq] at he; simp at he
          refine ⟨hs.global, hs.loggers, hs.std, ?_⟩
          intro x hx
          simp only [List.mem_append] at hx
          rcases hx with hx | hx
          · exact hs.sink x hx
          · exact outLine_good P nl hnl _ f msg hl.2 (ho hq) x hx
        · exact hs

theorem run_good (P : α → Prop) (nl : α) (hnl : P nl) (ops : List (Op α)) :
    ∀ (s s' : St α), StGood P s → (∀ o ∈ ops, OpGood P o) → run nl ops s = some s' → StGood P s' := by
  induction ops with
  | nil => intro s s' hs _ h; simp [run] at h; exact h ▸ hs
  | cons o rest ih =>
    intro s s' hs ho h
    simp only [run] at h
    cases hst : step nl s o with
    | none => simp [hst] at h
    | some s1 =>
      simp [hst] at h
      exact ih s1 s' (step_good P nl hnl s s1 o hs (ho o (by simp)) hst)
        (fun o' ho' => ho o' (by simp [ho'])) h

/-- **What reaches the sink.**  For every history of the logger package — level changes, new loggers, prefix
changes, calls of every family and form on every logger and on the package-level functions — that never sets a
level below `ErrorLevel`: if the newline, every prefix and the text of every `Error*/Info*/Print*` call satisfy
`P`, so does every element of the sink.  The texts of `Trace*/Debug*/Warn*` calls are unconstrained. -/
theorem sink_clean (P : α → Prop) (nl : α) (hnl : P nl) (ops : List (Op α)) (s s' : St α)
    (hs : StGood P s) (hops : ∀ o ∈ ops, OpGood P o) (h : run nl ops s = some s') :
    ∀ x ∈ s'.sink, P x :=
  (run_good P nl hnl ops s s' hs hops h).sink

/-- the initial state of the package (`level = ErrorLevel`, nothing written) is good for every `P` -/
theorem init_good (P : α → Prop) : StGood P ({} : St α) :=
  ⟨by simp [defaultLevel], by simp, by simp, by simp⟩

/-- a silent call does not change the state while no level is below `ErrorLevel` -/
theorem quiet_call_noop (nl : α) (s s' : St α) (o : Op α) (hs : StGood (fun _ => True) s)
    (hq : o.isQuietCall = true) (h : step nl s o = some s') : s' = s := by
  cases o with
  | call tgt m f msg =>
    simp [Op.isQuietCall] at hq
    cases tgt with
    | none =>
      simp only [step, Option.some.injEq] at h
      rw [emits_quiet_false hs.global hq] at h
      simp at h; exact h.symm
    | some i =>
      simp only [step] at h
      split at h
      · simp at h
      · rename_i lg hlg
        rw [emits_quiet_false (hs.loggers lg (List.mem_of_getElem? hlg)).1 hq] at h
        simp at h; exact h.symm
  | _ => simp [Op.isQuietCall] at hq

/-- **The silent families never reach the sink.**  In every history that sets no level below `ErrorLevel`, the
`Trace*/Debug*/Warn*` calls can be erased: the remaining history ends in the same state, sink included. -/
theorem quiet_calls_erasable (nl : α) (ops : List (Op α)) :
    ∀ (s s' : St α), StGood (fun _ => True) s → (∀ o ∈ ops, OpGood (fun _ => True) o) →
      run nl ops s = some s' → run nl (ops.filter (fun o => !o.isQuietCall)) s = some s' := by
  induction ops with
  | nil => intro s s' _ _ h; simpa [run] using h
  | cons o rest ih =>
    intro s s' hs ho h
    simp only [run] at h
    cases hst : step nl s o with
    | none => simp [hst] at h
    | some s1 =>
      simp [hst] at h
      have hs1 := step_good (fun _ => True) nl trivial s s1 o hs (ho o (by simp)) hst
      have hrest := ih s1 s' hs1 (fun o' ho' => ho o' (by simp [ho'])) h
      cases hq : o.isQuietCall with
      | true =>
        have := quiet_call_noop nl s s1 o hs hq hst
        subst this
        simpa [List.filter, hq] using hrest
      | false =>
        simp [List.filter, hq, run, hst, hrest]

/-- `New` copies the package level of the moment -/
theorem new_captures_level (nl : α) (s : St α) (p : List α) :
    step nl s (.new p) = some { s with loggers := s.loggers ++ [⟨s.global, p⟩] } := rfl

/-- a later package-level `SetLevel` leaves every existing logger as it is -/
theorem package_setLevel_keeps_loggers (nl : α) (s s' : St α) (l : Level)
    (h : step nl s (.setLevel l) = some s') : s'.loggers = s.loggers ∧ s'.sink = s.sink := by
  simp [step] at h; subst h; exact ⟨rfl, rfl⟩

/-- every step only appends to the sink -/
theorem sink_only_grows (nl : α) (s s' : St α) (o : Op α) (h : step nl s o = some s') :
    ∃ out, s'.sink = s.sink ++ out := by
  cases o with
  | call tgt m f msg =>
    cases tgt with
    | none =>
      simp only [step, Option.some.injEq] at h; subst h
      split
      · exact ⟨_, rfl⟩
      · exact ⟨[], by simp⟩
    | some i =>
      simp only [step] at h
      split at h
      · simp at h
      · simp only [Option.some.injEq] at h; subst h
        split
        · exact ⟨_, rfl⟩
        · exact ⟨[], by simp⟩
  | lSetLevel i l =>
    simp only [step] at h
    split at h
    · simp at h
    · simp at h; subst h; exact ⟨[], by simp⟩
  | lSetPrefix i p =>
    simp only [step] at h
    split at h
    · simp at h
    · simp at h; subst h; exact ⟨[], by simp⟩
  | setLevel l => simp [step] at h; subst h; exact ⟨[], by simp⟩
  | new p => simp [step] at h; subst h; exact ⟨[], by simp⟩
  | setStdPrefix p => simp [step] at h; subst h; exact ⟨[], by simp⟩

end

/-- lowering the level only adds lines -/
theorem emits_monotone (cur cur' : Int) (m : Meth) (h : cur' ≤ cur) (he : emits cur m = true) :
    emits cur' m = true := by
  cases m <;>
    simp [emits, Meth.level, traceLevel, debugLevel, warnLevel, errorLevel, infoLevel] at * <;> omega

/-- `UnknownLevel` (what `ParseLevel` hands back with its error) and every level below `TraceLevel` pass every
test: a caller that ignored the error would log at trace verbosity -/
theorem unknown_level_emits_everything (l : Int) (h : l ≤ traceLevel) (m : Meth) : emits l m = true := by
  have h1 : l ≤ (1 : Int) := h
  cases m <;> simp [emits, Meth.level, traceLevel, debugLevel, warnLevel, errorLevel, infoLevel] <;> omega

/-- the default level silences exactly `Trace*/Debug*/Warn*` -/
theorem default_level_silences (m : Meth) : emits defaultLevel m = !m.quiet := by
  cases m <;> decide

/-- `ParseLevel` fails exactly when the lower-cased string is none of the five names; when it succeeds the level
is one of the five constants (never `UnknownLevel`) -/
theorem parseLevel_none_iff (s : Bytes) :
    parseLevel s = none ↔ ∀ p ∈ levelNames, toLower s ≠ p.1 := by
  unfold parseLevel
  rw [List.lookup_eq_none_iff]
  constructor
  · intro h p hp heq
    have := h p hp
    rw [heq] at this
    simp at this
  · intro h p hp
    exact bne_iff_ne.mpr (h p hp)

theorem lookup_some_mem {β : Type} (l : List (Bytes × β)) (k : Bytes) (b : β) (h : l.lookup k = some b) :
    ∃ p ∈ l, p.2 = b := by
  induction l with
  | nil => simp [List.lookup] at h
  | cons p rest ih =>
    obtain ⟨a, v⟩ := p
    simp only [List.lookup] at h
    split at h
    · simp at h; exact ⟨(a, v), by simp, h⟩
    · obtain ⟨q, hq, hv⟩ := ih h
      exact ⟨q, by simp [hq], hv⟩

theorem parseLevel_range (s : Bytes) (l : Level) (h : parseLevel s = some l) :
    traceLevel ≤ l ∧ l ≤ infoLevel := by
  unfold parseLevel at h
  obtain ⟨p, hp, rfl⟩ := lookup_some_mem _ _ _ h
  simp [levelNames] at hp
  rcases hp with rfl | rfl | rfl | rfl | rfl <;> decide

/-- the model's method families as the call-site table names them -/
def methOf : CJ.LogTaint.Level → Option Meth
  | .trace => some .trace
  | .debug => some .debug
  | .warn => some .warn
  | .error => some .error
  | .info => some .info
  | .print => some .print
  | .fatal => none

/-- **The level table observed on the code under check is the model at the default level**: for each of the six
families the regenerated `CJ.Gen.levelEmitted` (a fresh logger, run on the tree) says what `emits defaultLevel`
says. -/
theorem level_table_is_model :
    ∀ l m, methOf l = some m → CJ.LogTaint.emittedBy CJ.Gen.levelEmitted l = emits defaultLevel m := by
  intro l m h
  cases l <;> simp [methOf] at h <;> subst h <;> decide

/-! ### the hypotheses are satisfiable, and needed -/

/-- a history with a new logger, a silent call carrying anything, a loud call and a package-level line -/
example :
    (run (10 : UInt8) [.new [91, 93], .call (some 0) .debug .f [1, 2, 3], .setLevel 5,
        .call (some 0) .error .ln [65], .call none .info .plain [66], .call none .error .plain [67]] {}).map (·.sink)
      = some [91, 93, 65, 10, 66, 10] := by decide

example : StGood (fun x : UInt8 => x ≠ 7) ({} : St UInt8) := init_good _

example : OpGood (fun x : UInt8 => x ≠ 7) (.call (some 0) .debug .f [7]) := by simp [OpGood, Meth.quiet]

/-- needed: once a level below `ErrorLevel` is set, a `Debug` text reaches the sink -/
example :
    (run (10 : UInt8) [.new [], .lSetLevel 0 2, .call (some 0) .debug .f [7]] {}).map (·.sink) = some [7, 10] := by
  decide

/-- `New` before `SetLevel`: the logger stays at the old level -/
example :
    (run (10 : UInt8) [.new [], .setLevel 1, .call (some 0) .debug .f [7], .new [], .call (some 1) .debug .f [8]] {}).map
      (·.sink) = some [8, 10] := by decide

example : parseLevel [0xC4, 0xB0, 78, 70, 79] = some infoLevel := by decide   -- "İNFO"
example : parseLevel [87, 97, 114, 110] = some warnLevel := by decide   -- "Warn"
example : parseLevel [119, 97, 114, 110, 105, 110, 103] = none := by decide   -- "warning"
example : parseLevel [] = none := by decide

end CJ.Props.C17
