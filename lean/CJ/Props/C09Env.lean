import CJ.Lemmas.PipelineEnv
import CJ.Gen.IngestCalls
import CJ.Gen.StatsShape
/-!
# C09 — the pipeline against an environment that answers late or never

Property theorems only.  "Overload and shutdown do not stall the pipeline": what a worker waits for is
decided by which of the external interactions of an ingest it makes itself (`Cfg.sync`).  The theorems
are stated for every configuration and every environment; `CJ.Gen.ingestCalls` — every call of the
functions on the ingest path with whether it is a `go` statement, regenerated from the source on every
run — says which configuration the tree under check has.
-/
namespace CJ.Props.C09Env
open CJ.PipelineEnv CJ.Pipeline

/-! ## how long the environment keeps a worker -/

/-- a worker's occupancy does not depend on what the environment answers to the interactions that run
on a goroutine of their own -/
theorem occupancy_ignores_spawned (c : Cfg) (e1 e2 : Env) (h : ∀ ix ∈ c.sync, e1 ix = e2 ix) :
    occupancy c e1 = occupancy c e2 :=
  occ_congr c.sync e1 e2 h Ix.all

/-- … and it does depend on every interaction the worker makes itself: if that answer never comes the
worker never comes back -/
theorem occupancy_waits_for_sync (c : Cfg) (e : Env) (ix : Ix) (hs : ix ∈ c.sync) (hn : e ix = none) :
    occupancy c e = none :=
  occ_none_of_never c.sync e ix hs hn Ix.all (mem_all ix)

/-- **Worker occupancy is independent of the behaviour of the party behind an interaction iff that
interaction is spawned.** -/
theorem occupancy_independent_iff_spawned (c : Cfg) (ix : Ix) :
    (∀ e1 e2 : Env, (∀ j, j ≠ ix → e1 j = e2 j) → occupancy c e1 = occupancy c e2) ↔ ix ∉ c.sync := by
  constructor
  · intro h hs
    have h1 := h (fun _ => some 0) (fun j => if j = ix then none else some 0)
      (fun j hj => by simp [hj])
    have h2 : occupancy c (fun j => if j = ix then none else some 0) = none :=
      occupancy_waits_for_sync c _ ix hs (by simp)
    obtain ⟨n, _, hn⟩ := occ_bounded c.sync (fun _ => some 0) 0 (fun _ _ => ⟨0, Nat.le_refl _, rfl⟩) Ix.all
    rw [h2] at h1
    unfold occupancy at h1
    rw [hn] at h1
    cases h1
  · intro hs e1 e2 h
    apply occupancy_ignores_spawned
    intro j hj
    exact h j (fun hji => hs (hji ▸ hj))

/-- if every synchronous interaction is answered within `B`, a worker is back after at most `5·B` -/
theorem occupancy_bounded (c : Cfg) (e : Env) (B : Nat) (h : ∀ ix ∈ c.sync, ∃ d, d ≤ B ∧ e ix = some d) :
    ∃ n, n ≤ B * 5 ∧ occupancy c e = some n :=
  occ_bounded c.sync e B h Ix.all

/-! ## overload: a drained pool still does not block the receiver -/

/-- whatever holds the workers — for a while or for ever — and with the buffer full, a message that
arrives is counted and dropped and the distributor is back in its loop -/
theorem parked_pool_still_drops (s : TSt) (m : Msg) (hd : s.dist = .loop) (hc : s.cancelled = false)
    (hidle : idleTW s.workers = none) (hfull : ¬ s.queue.length < s.cap) :
    (tstep s (.dist (some m))).received = s.received + 1 ∧
    (tstep s (.dist (some m))).dropped = s.dropped + 1 ∧
    (tstep s (.dist (some m))).dist = .loop := by
  simp only [tstep, hd, hc]
  simp only [Bool.false_eq_true, if_false]
  have : (if s.queue.isEmpty then idleTW s.workers else none) = none := by
    split
    · exact hidle
    · rfl
  rw [this]
  simp only [hfull, if_false]
  simp

/-! ## shutdown -/

/-- **Wind-down.**  After a stop request, if nothing is held for ever — every answer a worker or a
buffered message waits for does come — there is a schedule of at most `tmu s` actions (time steps
included) after which `HandleRegUpdates` has returned; by `tmu_bound` that is at most
`2 + (buffered + workers)·(2 + B)` when every wait is at most `B`. -/
theorem winds_down_within_bound (s : TSt) (h : Inv s) :
    ∃ acts, acts.length ≤ tmu s ∧ (trun s acts).dist = .done := by
  have gen : ∀ (k : Nat) (s : TSt), tmu s ≤ k → Inv s → ∃ acts, acts.length ≤ k ∧ (trun s acts).dist = .done := by
    intro k
    induction k with
    | zero =>
      intro s hk hi
      by_cases hd : s.dist = .done
      · exact ⟨[], Nat.le_refl _, hd⟩
      · obtain ⟨a, ha⟩ := tprogress s hi hd
        omega
    | succ k ih =>
      intro s hk hi
      by_cases hd : s.dist = .done
      · exact ⟨[], Nat.zero_le _, hd⟩
      · obtain ⟨a, ha⟩ := tprogress s hi hd
        obtain ⟨acts, hl, hdone⟩ := ih (tstep s a) (by omega) (inv_step s a hi)
        exact ⟨a :: acts, by simp only [List.length_cons]; omega, hdone⟩
  exact gen (tmu s) s (Nat.le_refl _) h

/-- … no schedule needs more: after a stop request every action is a no-op or uses up the measure -/
theorem shutdown_measure_decreases (s : TSt) (a : TAct) (h : s.cancelled = true) :
    tstep s a = s ∨ tmu (tstep s a) < tmu s :=
  tmu_step s a h

theorem tmu_bound (s : TSt) (B : Nat)
    (hw : ∀ w ∈ s.workers, ∀ n, w = TW.busy (.good (some n)) → n ≤ B)
    (hq : ∀ m ∈ s.queue, ∀ n, m = Msg.good (some n) → n ≤ B) :
    tmu s ≤ 2 + (s.queue.length + s.workers.length) * (2 + B) := by
  have h1 := wTSum_le s.workers B hw
  have h2 := qSum_le s.queue B hq
  have h3 : wD s.dist ≤ 2 := by cases s.dist <;> simp [wD]
  simp only [tmu, Nat.add_mul]; omega

/-- **The hypothesis is needed**: one worker that waits for an answer that never comes, and
`HandleRegUpdates` never returns, whatever else happens and however long one waits. -/
theorem parked_worker_blocks_shutdown (s : TSt) (i : Nat) (h : s.workers[i]? = some (.busy (.good none)))
    (hd : s.dist ≠ .done) (acts : List TAct) : (trun s acts).dist ≠ .done := by
  unfold trun
  induction acts generalizing s with
  | nil => exact hd
  | cons a acts ih =>
    simp only [List.foldl_cons]
    exact ih (tstep s a) (parked_stays s a i h) (not_done_step s a i h hd)

/-- a message whose environment never answers an interaction the worker makes itself parks the worker
that takes it (direct hand-off shown; through the buffer it is `take`) -/
theorem never_answered_sync_parks (c : Cfg) (e : Env) (ix : Ix) (hs : ix ∈ c.sync) (hn : e ix = none)
    (s : TSt) (i : Nat) (hd : s.dist = .loop) (hc : s.cancelled = false) (hq : s.queue = [])
    (hi : idleTW s.workers = some i) :
    (tstep s (.dist (some (.good (occupancy c e))))).workers[i]? = some (.busy (.good none)) := by
  rw [occupancy_waits_for_sync c e ix hs hn]
  have hlt : i < s.workers.length := by
    have := idleTW_some _ _ hi
    rcases Nat.lt_or_ge i s.workers.length with h' | h'
    · exact h'
    · rw [List.getElem?_eq_none h'] at this; cases this
  simp only [tstep, hd, hc, hq]
  simp only [Bool.false_eq_true, if_false, List.isEmpty_nil, if_true, hi]
  rw [List.getElem?_set_self hlt]

/-! ## the timed pipeline is the pipeline of `CJ.Pipeline` with time made explicit -/

/-- every execution of the timed pipeline, time and message contents forgotten, is an execution of the
untimed one (no longer than it): what is proved there about every execution — conservation of messages,
workers leave only after a stop request — holds here -/
theorem timed_refines_untimed (s : TSt) (acts : List TAct) :
    ∃ acts' : List Act, acts'.length ≤ acts.length ∧ erase (trun s acts) = Pipeline.run (erase s) acts' :=
  timed_run_refines s acts

/-- in particular messages are conserved whatever the environment does: received = forwarded + dropped,
and every forwarded message is processed, rejected, buffered or with a worker (parked ones included) -/
theorem timed_conservation (cap n : Nat) (acts : List TAct) :
    let s := trun (tinit cap n) acts
    s.received = s.forwarded + s.dropped ∧
      s.forwarded = s.processed + s.rejected + s.queue.length + busyCount (s.workers.map eraseW) := by
  obtain ⟨acts', _, h⟩ := timed_run_refines (tinit cap n) acts
  have hinit : erase (tinit cap n) = Pipeline.init cap n := by
    simp [erase, tinit, Pipeline.init, eraseW]
  have hc := cons_run _ acts' (cons_init cap n)
  rw [← hinit, ← h] at hc
  exact hc

/-! ## the source of the tree under check -/

open CJ.Gen in
def callsOf (fn callee : String) : List Bool :=
  (ingestCalls.filter fun c => c.1 == fn && c.2.1 == callee).map (·.2.2)

open CJ.Gen in
def syncCallees (fn : String) : List String :=
  ((ingestCalls.filter fun c => c.1 == fn && !c.2.2).map (·.2.1)).eraseDups

open CJ.Gen in
def spawnedCallees (fn : String) : List String :=
  ((ingestCalls.filter fun c => c.1 == fn && c.2.2).map (·.2.1)).eraseDups

/-- which callee of `ingestRegistration` is which external interaction (reviewed) -/
def ixOf : String → Option Ix
  | "rm.ParseOrResolveBlocklisted" => some .dns
  | "rm.PhantomIsLive" => some .probe
  | "tryShareRegistrationOverAPI" => some .share
  | "rm.AddRegistration" => some .publish
  | "handleConnectingTpReg" => some .dialback
  | _ => none

theorem ingest_path_found : CJ.Gen.ingestPathMissing = [] := by decide

/-- **`share_is_asynchronous`**: every call site of `tryShareRegistrationOverAPI` on the ingest path is a
`go` statement (and there is one) -/
theorem share_is_asynchronous :
    callsOf "ingestRegistration" "tryShareRegistrationOverAPI" = [true] ∧
    (CJ.Gen.ingestCalls.filter fun c => c.2.1 == "tryShareRegistrationOverAPI" && !c.2.2) = [] := by
  decide +kernel

/-- the HTTP request itself is made only behind that `go`: `http.Post` occurs in `executeHTTPRequest`
only, which is called from `tryShareRegistrationOverAPI` only -/
theorem http_request_only_behind_the_share :
    (CJ.Gen.ingestCalls.filter fun c => c.2.1 == "http.Post").map (·.1) = ["executeHTTPRequest"] ∧
    (CJ.Gen.ingestCalls.filter fun c => c.2.1 == "executeHTTPRequest").map (·.1) = ["tryShareRegistrationOverAPI"] := by
  decide +kernel

/-- the dial-back — the transport's `Connect` and the `Proxy` session behind it — runs inside the
`go func` of `handleConnectingTpReg`; what the worker itself does there is start it -/
theorem dialback_is_asynchronous :
    callsOf "handleConnectingTpReg" "transport.Connect" = [true] ∧
    callsOf "handleConnectingTpReg" "Proxy" = [true] ∧
    syncCallees "handleConnectingTpReg" =
      ["regManager.GetConnectingTransports", "context.WithTimeout", "context.Background"] := by
  decide +kernel

/-- **The calls an ingest worker makes itself, reviewed**: everything `ingestRegistration` calls
synchronously, in order of first occurrence.  Registry operations, counters and log lines apart, the
external interactions among them are the resolution of the covert address, the liveness probe and the
announcement (`synchronous_interactions_are_the_reviewed`). -/
theorem ingest_synchronous_calls_reviewed :
    syncCallees "ingestRegistration" =
      ["rm.ValidateRegistration", "rm.AddBlocklistedPhantomReg", "logger.Errorln", "Stat().AddErrReg", "Stat",
       "rm.RegistrationExists", "verifhook.Yield", "logger.Debugf", "reg.IDString", "Stat().AddDupReg",
       "rm.AddDupReg", "rm.TrackRegistration", "rm.AddErrReg", "reg.String",
       "rm.registeredDecoys.RegistrationExists", "rm.ParseOrResolveBlocklisted", "rm.addDNSResolution",
       "logger.Infof", "reg.GetRegistrationAddress", "reg.PreScanned", "reg.PhantomIp.To4", "rm.PhantomIsLive",
       "reg.PhantomIp.String", "logger.Warnf", "errors.Is", "Stat().AddLivenessCached", "Stat().AddLivenessFail",
       "Stat().AddLivenessPass", "rm.IsBlocklistedPhantom", "rm.AddRegistration", "Stat().AddReg",
       "rm.AddRegStats", "handleConnectingTpReg"] ∧
    spawnedCallees "ingestRegistration" = ["tryShareRegistrationOverAPI"] := by
  decide +kernel

/-- the configuration of the tree under check: the interactions whose call is a plain call — the
dial-back counts as spawned because what `handleConnectingTpReg` does synchronously is start a goroutine
(`dialback_is_asynchronous`) -/
def codeSync : List Ix :=
  ((syncCallees "ingestRegistration").filterMap ixOf).filter (· != .dialback)

theorem synchronous_interactions_are_the_reviewed : codeSync = reviewed.sync := by decide +kernel

/-- the code's occupancy is independent of the peer station and of the client that is dialled back -/
theorem code_occupancy_independent_of_peer (e1 e2 : Env)
    (h : e1 .dns = e2 .dns ∧ e1 .probe = e2 .probe ∧ e1 .publish = e2 .publish) :
    occupancy { sync := codeSync } e1 = occupancy { sync := codeSync } e2 := by
  apply occupancy_ignores_spawned
  rw [synchronous_interactions_are_the_reviewed]
  intro ix hix
  simp [reviewed] at hix
  rcases hix with rfl | rfl | rfl
  · exact h.1
  · exact h.2.1
  · exact h.2.2

/-- **Wind-down of the code, with its hypothesis spelled out**: the three synchronous external calls —
resolution of the covert address (system resolver; no deadline of its own: known finding
`C11:zmq-ingest:resolver-without-deadline`), liveness probe, detector publication — return within `B`;
nothing is assumed about the peer station or the dial-back.  Then every ingest in flight is over after
`3·B` … -/
theorem code_occupancy_bounded (e : Env) (B : Nat)
    (hdns : ∃ d, d ≤ B ∧ e .dns = some d) (hprobe : ∃ d, d ≤ B ∧ e .probe = some d)
    (hpub : ∃ d, d ≤ B ∧ e .publish = some d) :
    ∃ n, n ≤ B * 5 ∧ occupancy { sync := codeSync } e = some n := by
  apply occupancy_bounded
  rw [synchronous_interactions_are_the_reviewed]
  intro ix hix
  simp [reviewed] at hix
  rcases hix with rfl | rfl | rfl
  · exact hdns
  · exact hprobe
  · exact hpub

/-- a message is `answered` when the environment does answer the three calls the worker makes itself -/
def answered (o : Option Nat) : Prop :=
  ∃ e : Env, (∃ d, e .dns = some d) ∧ (∃ d, e .probe = some d) ∧ (∃ d, e .publish = some d) ∧
    o = occupancy { sync := codeSync } e

theorem answered_not_parked (o : Option Nat) (h : answered o) : (Msg.good o).parked = false := by
  obtain ⟨e, ⟨d1, h1⟩, ⟨d2, h2⟩, ⟨d3, h3⟩, rfl⟩ := h
  obtain ⟨n, _, hn⟩ := code_occupancy_bounded e (d1 + d2 + d3)
    ⟨d1, by omega, h1⟩ ⟨d2, by omega, h2⟩ ⟨d3, by omega, h3⟩
  rw [hn]; rfl

/-- **Wind-down of the code.**  After a stop request, if for every registration that is with a worker or
in the buffer the covert-address resolution, the liveness probe and the detector publication return —
whatever the peer station and the dialled-back client do, answer late or never — then a bounded schedule
ends with `HandleRegUpdates` returned. -/
theorem code_winds_down (s : TSt) (hc : s.cancelled = true)
    (hw : ∀ w ∈ s.workers, ∀ o, w = TW.busy (.good o) → answered o)
    (hq : ∀ m ∈ s.queue, ∀ o, m = Msg.good o → answered o) :
    ∃ acts, acts.length ≤ tmu s ∧ (trun s acts).dist = .done := by
  apply winds_down_within_bound
  refine ⟨hc, ?_, ?_⟩
  · intro w hwm
    cases w with
    | idle => rfl
    | exited => rfl
    | busy m =>
      cases m with
      | bad => rfl
      | good o => exact answered_not_parked o (hw _ hwm o rfl)
  · intro m hm
    cases m with
    | bad => rfl
    | good o => exact answered_not_parked o (hq _ hm o rfl)

/-- the bound of the liveness probe rests on its shape: every dial is a `DialTimeout(…, timeout)`, the
wait is one `time.Sleep(timeout)` and the `select` behind it has a `default` branch -/
theorem probe_is_bounded_by_construction :
    CJ.Gen.probeSleepsTimeoutOnce = true ∧ CJ.Gen.probeSelectHasDefault = true ∧
    CJ.Gen.probeDialsWithTimeout ≥ 1 ∧ CJ.Gen.probeDialsWithoutTimeout = 0 ∧
    (CJ.Gen.probeCalls.filter (·.1 == "time.Sleep")).length = 1 := by decide

/-! ## "dropped and counted": the drop counters across statistics epochs -/

def regStats : CJ.StatsEpoch.StatsMod :=
  (CJ.Gen.statsMods.find? (·.name == "RegistrationStats")).getD
    { name := "", dir := "", fields := [], resetMethods := [], resetStores := [], resetReplaces := [], adds := [], storesElsewhere := [] }

/-- every received message bumps the epoch counter and the running total, every dropped one likewise,
nothing ever lowers them, and the epoch reset zeroes the epoch counters and leaves the totals alone -/
theorem drop_counters_survive_epochs :
    (regStats.adds.filter fun a => a.1 == "addIngestMessage") =
      [("addIngestMessage", "newIngestMessages", "+"), ("addIngestMessage", "totalIngestMessages", "+")] ∧
    (regStats.adds.filter fun a => a.1 == "addDroppedMessage") =
      [("addDroppedMessage", "newDroppedMessages", "+"), ("addDroppedMessage", "totalDroppedMessages", "+")] ∧
    (regStats.adds.filter fun a => (a.2.1 == "totalIngestMessages" || a.2.1 == "totalDroppedMessages" ||
        a.2.1 == "newIngestMessages" || a.2.1 == "newDroppedMessages") && a.2.2 != "+") = [] ∧
    "totalIngestMessages" ∉ regStats.zeroed ∧ "totalDroppedMessages" ∉ regStats.zeroed ∧
    "newIngestMessages" ∈ regStats.zeroed ∧ "newDroppedMessages" ∈ regStats.zeroed ∧
    regStats.storesElsewhere = [] := by decide +kernel

/-! ## non-vacuity -/

def sParked : TSt := { cap := 0, workers := [.busy (.good none), .idle], cancelled := true, dist := .waiting }
example : (trun sParked [.tick, .exit 1, .dist none, .finish 0, .tick, .dist none]).dist = .waiting := by decide
example : Inv { cap := 1, queue := [.good (some 2)], workers := [.busy (.good (some 3)), .idle, .busy .bad], cancelled := true } := by
  refine ⟨rfl, ?_, ?_⟩ <;> decide
example : occupancy reviewed (fun ix => if ix = .share then none else some 1) = some 3 := by decide
example : occupancy { sync := [.dns, .probe, .share, .publish] } (fun ix => if ix = .share then none else some 1) = none := by decide

end CJ.Props.C09Env
