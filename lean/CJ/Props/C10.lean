import CJ.Lemmas.Detector
import CJ.Props.C07
import CJ.Gen.C10Consts
/-!
# C10 — every detector announcement is acceptable to it and matches the registration

Property theorems only.  `mkS2D` / `mkClear` are the station's `sendToDetector` / `clearDetector`;
`convert` / `dispatch` / `handle` are the detector's `From<&StationToDetector>`, `SessionDetails::new`
and `pubsub_handle_s2d` (conversion first, then the operation).  `CJ.Gen.C10` holds what the real
closures and `clearDetector` publish on the tree under test (regenerated on every run).

`CJ.Detector.Announceable r` is what ingest guarantees about the announcement-relevant fields of a
registration it builds; `CJ.Props.C07.admitted_announceable` proves it from the ingest model, and
`admitted_announcement_accepted` below composes the two properties.
-/
namespace CJ.Props.C10
open CJ.Detector

/-- IP next-header number of an `IPProto` wire value -/
def nextHeader (p : Nat) : Nat := if p = protoTcp then 6 else 17

/-- **The detector's acceptance rule, exactly**: an announcement built by `sendToDetector` converts
iff phantom and registrant are valid addresses, an IPv4 phantom comes with an IPv4 registrant, and the
protocol is TCP or UDP — whatever the operation and lifetime.  (Each condition is necessary.) -/
theorem accepted_iff (r : Reg) (t op : Nat) :
    (∃ s, convert (mkS2D r t op) = .ok s) ↔
      ((ipOf r.phantom).isSome ∧ (ipOf r.registrant).isSome ∧
        ((to4 r.phantom).isSome → (to4 r.registrant).isSome) ∧ (r.proto = protoTcp ∨ r.proto = protoUdp)) := by
  unfold convert mkS2D protoTcp protoUdp
  simp only [txtOf, Option.getD_some, Option.getD_none]
  constructor
  · rintro ⟨s, hs⟩
    have hp : r.proto = 1 ∨ r.proto = 2 := by
      rcases hr : r.proto with _ | _ | _ | n
      · rw [hr] at hs; simp at hs
      · simp
      · simp
      · rw [hr] at hs; simp at hs
    have hs' : ∃ p, sessionNew (goString r.registrant) (goString r.phantom) t (0 % 65536) (r.port % 65536) p = .ok s := by
      rcases hp with h | h <;> rw [h] at hs <;> exact ⟨_, hs⟩
    obtain ⟨p, hs'⟩ := hs'
    unfold sessionNew at hs'
    rw [parseIp_goString, parseIp_goString] at hs'
    cases hph : ipOf r.phantom with
    | none => rw [hph] at hs'; simp at hs'
    | some ph =>
      rw [hph] at hs'
      cases hcl : ipOf r.registrant with
      | none =>
        rw [hcl] at hs'
        simp [goString_ne_empty] at hs'
      | some cl =>
        rw [hcl] at hs'
        refine ⟨rfl, rfl, ?_, hp⟩
        intro h4
        rw [← ipOf_isV4 hph] at h4
        rw [← ipOf_isV4 hcl]
        cases hc : cl.isV4 with
        | true => rfl
        | false => simp [h4, hc] at hs'
  · rintro ⟨hph, hcl, hfam, hp⟩
    cases hph' : ipOf r.phantom with
    | none => rw [hph'] at hph; cases hph
    | some ph =>
      cases hcl' : ipOf r.registrant with
      | none => rw [hcl'] at hcl; cases hcl
      | some cl =>
        have hmix : ¬ (ph.isV4 = true ∧ cl.isV4 = false) := by
          rintro ⟨h1, h2⟩
          rw [ipOf_isV4 hph'] at h1
          have := hfam h1
          rw [← ipOf_isV4 hcl'] at this
          rw [this] at h2; cases h2
        rcases hp with h | h <;> rw [h] <;>
          simp [sessionNew, parseIp_goString, hph', hcl', hmix]

/-- **Announcements are accepted and match the registration**: for every announceable registration,
whichever lifetime is requested, a `New` or `Update` message is converted by the detector into the
session (registrant, phantom, port, protocol, lifetime) of that registration and dispatched as an
add-or-update. -/
theorem announce_accepted (r : Reg) (h : Announceable r) (t op : Nat) (hop : op = opNew ∨ op = opUpdate) :
    ∃ ph cl, ipOf r.phantom = some ph ∧ ipOf r.registrant = some cl ∧
      dispatch (mkS2D r t op) = .addOrUpdate
        { client := cl, phantom := ph, dstPort := r.port, srcPort := 0, proto := nextHeader r.proto, timeout := t } := by
  obtain ⟨hph, hcl, hfam, hp, hport⟩ := h
  cases hph' : ipOf r.phantom with
  | none => rw [hph'] at hph; cases hph
  | some ph =>
    cases hcl' : ipOf r.registrant with
    | none => rw [hcl'] at hcl; cases hcl
    | some cl =>
      refine ⟨ph, cl, rfl, rfl, ?_⟩
      have hmix : ¬ (ph.isV4 = true ∧ cl.isV4 = false) := by
        rintro ⟨h1, h2⟩
        rw [ipOf_isV4 hph'] at h1
        have := hfam h1
        rw [← ipOf_isV4 hcl'] at this
        rw [this] at h2; cases h2
      have hmod : r.port % 65536 = r.port := Nat.mod_eq_of_lt hport
      unfold protoTcp protoUdp at hp
      unfold opNew opUpdate at hop
      rcases hp with hp | hp <;> rcases hop with hop | hop <;>
        simp [dispatch, convert, mkS2D, txtOf, sessionNew, parseIp_goString, hph', hcl', hmix, hmod, hp, hop,
          nextHeader, protoTcp]

/-! ### lifetimes -/

/-- the two announced states of a registration -/
inductive RegState
  | fresh   -- validated, no connection yet: announced by `registerForDetector`
  | used    -- a connection was accepted: announced by `updateInDetector`
deriving DecidableEq, Repr

/-- what the real closures publish (operation and lifetime as observed on the tree under test) -/
def announce (r : Reg) : RegState → S2D
  | .fresh => mkS2D r CJ.Gen.C10.announcedNewNs CJ.Gen.C10.announcedNewOp
  | .used => mkS2D r CJ.Gen.C10.announcedUpdateNs CJ.Gen.C10.announcedUpdateOp

/-- the station's own expiry threshold for that state (`RegisteredDecoys.timeoutUnused`, `.timeoutActive`) -/
def stationLifetime : RegState → Nat
  | .fresh => CJ.Gen.C10.stationUnusedNs
  | .used => CJ.Gen.C10.stationActiveNs

def tenMinutesNs : Nat := 10 * 60 * 1000000000
def sixHoursNs : Nat := 6 * 60 * 60 * 1000000000

/-- the station's thresholds are the 10 minutes / 6 hours of the property -/
theorem station_lifetimes : stationLifetime .fresh = tenMinutesNs ∧ stationLifetime .used = sixHoursNs := by
  decide

/-- **Requested lifetime = the station's own lifetime for that state**, for `New` and `Update`, and the
announcement is dispatched as an add-or-update of the registration's session. -/
theorem timeouts_match (r : Reg) (h : Announceable r) (st : RegState) :
    ∃ ph cl, ipOf r.phantom = some ph ∧ ipOf r.registrant = some cl ∧
      dispatch (announce r st) = .addOrUpdate
        { client := cl, phantom := ph, dstPort := r.port, srcPort := 0, proto := nextHeader r.proto,
          timeout := stationLifetime st } := by
  cases st with
  | fresh => exact announce_accepted r h _ _ (Or.inl rfl)
  | used => exact announce_accepted r h _ _ (Or.inr rfl)

/-- **The detector forwards the session for as long as the station accepts it**: after the
announcement is handled at time `t0`, the session's key is tracked with an expiry later than every
instant at which the station's record (created / marked at `t0`) is younger than its threshold —
whatever else the detector's map held before. -/
theorem forwarded_while_accepted (r : Reg) (h : Announceable r) (st : RegState) (t0 : Nat) (m : Map) :
    ∃ s v, dispatch (announce r st) = .addOrUpdate s ∧
      Map.get? (handle t0 m (announce r st)) (.tag (tagOf s)) = some v ∧
      ∀ now, now - t0 < stationLifetime st → now < v := by
  obtain ⟨ph, cl, _, _, hd⟩ := timeouts_match r h st
  obtain ⟨v, hv, hle⟩ := get?_addOrUpdate_self t0 m
    { client := cl, phantom := ph, dstPort := r.port, srcPort := 0, proto := nextHeader r.proto,
      timeout := stationLifetime st }
  refine ⟨_, v, hd, ?_, ?_⟩
  · unfold handle; rw [hd]; exact hv
  · intro now hnow; simp only at hle; omega

/-- no message other than a clear drops or shortens a tracked session: an `Update` after a `New`
extends, a late `New` after an `Update` keeps the 6 hours. -/
theorem lifetime_never_shortened (now : Nat) (m : Map) (msg : S2D) (k : Key) (v : Nat)
    (hk : Map.get? m k = some v) (hnc : dispatch msg ≠ .clear) :
    ∃ v', Map.get? (handle now m msg) k = some v' ∧ v ≤ v' := by
  unfold handle
  cases hd : dispatch msg with
  | ignored e => exact ⟨v, hk, Nat.le_refl _⟩
  | addOrUpdate s => exact get?_addOrUpdate_mono now m s k v hk
  | clear => exact absurd hd hnc
  | unknownOp => exact ⟨v, hk, Nat.le_refl _⟩

/-- an event that cannot end the forwarding of a session that is due to live until `deadline`: a message
that is not dispatched as a clear (whatever its content and clock value), or a sweep of stale sessions
that runs before `deadline` -/
def harmlessUntil (deadline : Nat) : Evt → Prop
  | .msg _ m => dispatch m ≠ .clear
  | .sweep now => now < deadline

instance (deadline : Nat) (e : Evt) : Decidable (harmlessUntil deadline e) := by
  cases e <;> unfold harmlessUntil <;> infer_instance

/-- **The packet path forwards the registrant's flows for as long as the station accepts them.**  After
the announcement is handled at `t0` — whatever the map held — and after any further sequence of station
messages that are not a clear and of sweeps (`drop_stale_sessions`) running at instants at which the
station's record is still younger than its own threshold, `is_tracked_session` answers *yes* for the
flow the client will send: to the registration's phantom and port, with the transport's protocol, from
the registrant when the phantom is IPv4 (from any source when it is IPv6: the tag leaves the client
out).  This ties the tag of a session (`SessionDetails::tag`) to the tag of a flow
(`FlowNoSrcPort::tag`) and the sweep's comparison and clock unit to the announced lifetime. -/
theorem tracked_while_accepted (r : Reg) (h : Announceable r) (st : RegState) (t0 : Nat) (m : Map)
    (es : List Evt) (hes : ∀ e ∈ es, harmlessUntil (t0 + stationLifetime st) e) :
    ∃ ph cl, ipOf r.phantom = some ph ∧ ipOf r.registrant = some cl ∧
      ∀ src, (ph.isV4 = true → src = cl) →
        isTracked (run (handle t0 m (announce r st)) es)
          { src := src, dst := ph, dstPort := r.port, proto := nextHeader r.proto } = true := by
  obtain ⟨ph, cl, hph, hcl, hd⟩ := timeouts_match r h st
  refine ⟨ph, cl, hph, hcl, ?_⟩
  intro src hsrc
  let s : Session := { client := cl, phantom := ph, dstPort := r.port, srcPort := 0, proto := nextHeader r.proto,
                       timeout := stationLifetime st }
  have htag : flowTag { src := src, dst := ph, dstPort := r.port, proto := nextHeader r.proto } = tagOf s :=
    flowTag_eq_tagOf s _ rfl rfl rfl hsrc
  unfold isTracked
  rw [htag]
  -- invariant: the session's key is present with an expiry of at least the deadline
  suffices hinv : ∀ (es : List Evt) (m' : Map), (∀ e ∈ es, harmlessUntil (t0 + stationLifetime st) e) →
      (∃ v, Map.get? m' (.tag (tagOf s)) = some v ∧ t0 + stationLifetime st ≤ v) →
      ∃ v, Map.get? (run m' es) (.tag (tagOf s)) = some v ∧ t0 + stationLifetime st ≤ v by
    obtain ⟨v, hv, hle⟩ := get?_addOrUpdate_self t0 m s
    have h0 : ∃ v, Map.get? (handle t0 m (announce r st)) (.tag (tagOf s)) = some v ∧ t0 + stationLifetime st ≤ v := by
      refine ⟨v, ?_, hle⟩
      unfold handle; rw [hd]; exact hv
    obtain ⟨v', hv', _⟩ := hinv es _ hes h0
    rw [hv']; rfl
  intro es
  induction es with
  | nil => intro m' _ h0; exact h0
  | cons e es ih =>
    intro m' hall h0
    have he := hall e (List.mem_cons_self ..)
    have hrest : ∀ e' ∈ es, harmlessUntil (t0 + stationLifetime st) e' :=
      fun e' he' => hall e' (List.mem_cons_of_mem _ he')
    unfold run
    rw [List.foldl_cons]
    apply ih (runEvt m' e) hrest
    obtain ⟨v, hv, hle⟩ := h0
    cases e with
    | msg now msg =>
      obtain ⟨v', hv', hle'⟩ := lifetime_never_shortened now m' msg _ v hv he
      exact ⟨v', hv', by omega⟩
    | sweep now =>
      have hnow : now < v := by
        have : now < t0 + stationLifetime st := he
        omega
      exact ⟨v, get?_dropStale now m' _ v hv hnow, hle⟩

/-- the sweep is what ends forwarding: an entry that a sweep at `now` keeps expires later than `now`
(so a session is not forwarded for ever), and nothing else than a clear or a sweep removes a key. -/
theorem sweep_drops_expired (now : Nat) (m : Map) (kv : Key × Nat) (h : kv ∈ dropStale now m) : now < kv.2 :=
  dropStale_keeps_only_live now m kv h

/-! ### the shutdown clear -/

/-- **The clear request is one the detector acts on**: it passes the conversion, is dispatched as a
clear, and leaves no diversion behind — whatever the map held (sessions of this launch, or of a
previous launch the restarted station knows nothing about). -/
theorem clear_acted_on (now : Nat) (m : Map) :
    dispatch mkClear = .clear ∧ handle now m mkClear = [] := by
  have : dispatch mkClear = .clear := by decide
  exact ⟨this, by unfold handle; rw [this]; rfl⟩

/-- tie to the code: the message the real `clearDetector` published on the tree under test is `mkClear` -/
theorem clear_message_of_code : CJ.Gen.C10.clearMsg = mkClear := by decide

theorem clear_of_code_acted_on (now : Nat) (m : Map) : handle now m CJ.Gen.C10.clearMsg = [] := by
  rw [clear_message_of_code]; exact (clear_acted_on now m).2

/-- a message is dispatched as a clear only if it passes the conversion: a TCP/UDP protocol and a
parsable phantom are necessary (what the clear message of the pinned commit lacked). -/
theorem clear_requires_convertible (msg : S2D) (h : dispatch msg = .clear) :
    (msg.proto = some protoTcp ∨ msg.proto = some protoUdp) ∧ (parseIp (txtOf msg.phantomIp)).isSome ∧
      msg.operation = some opClear := by
  unfold dispatch at h
  cases hc : convert msg with
  | error e => rw [hc] at h; cases h
  | ok s =>
    rw [hc] at h
    have hop : msg.operation = some opClear := by
      rcases ho : msg.operation with _ | _ | _ | _ | _ | n <;> rw [ho] at h <;> first | (cases h; done) | rfl
    refine ⟨?_, ?_, hop⟩
    · unfold convert at hc
      rcases hp : msg.proto with _ | _ | _ | _ | n <;> rw [hp] at hc <;> simp [protoTcp, protoUdp] at hc ⊢
    · unfold convert at hc
      rcases hp : msg.proto with _ | _ | _ | _ | n <;> rw [hp] at hc <;> simp at hc <;>
        (unfold sessionNew at hc; cases hph : parseIp (txtOf msg.phantomIp) <;> simp [hph] at hc ⊢)

/-- the clear message of the pinned commit (operation only) is ignored by the detector: every
diversion survives the station's shutdown. -/
theorem legacy_clear_ignored (now : Nat) (m : Map) :
    dispatch legacyClear = .ignored .unrecognizedProto ∧ handle now m legacyClear = m := by
  have : dispatch legacyClear = .ignored .unrecognizedProto := by decide
  exact ⟨this, by unfold handle; rw [this]; rfl⟩

/-! ### constants of the code -/

/-- station and detector use the same pub/sub channel -/
theorem channel_matches : CJ.Gen.C10.channelStation = CJ.Gen.C10.channelDetector := by decide

/-- every enabled transport announces TCP or UDP, never `Unk` -/
theorem transport_protos_acceptable :
    ∀ p ∈ CJ.Gen.C10.transportProtos, p.2 = protoTcp ∨ p.2 = protoUdp := by decide

/-- the closures announce `New` when fresh and `Update` once used -/
theorem announced_operations :
    CJ.Gen.C10.announcedNewOp = opNew ∧ CJ.Gen.C10.announcedUpdateOp = opUpdate := by decide

/-- every transport the station's main package enables (`enabledTransports` in `cmd/application`) has its
protocol in the dumped table, and it is TCP or UDP: "every transport" of the harness and of
`transport_protos_acceptable` is the set the station really runs with. -/
theorem enabled_transports_covered :
    ∀ t ∈ CJ.Gen.C10.enabledTransports, ∃ p ∈ CJ.Gen.C10.transportProtos, p.1 = t ∧ (p.2 = protoTcp ∨ p.2 = protoUdp) := by
  decide

/-! ### the two protobuf stacks agree on the wire -/

/-- **Field tags and kinds match**: the message the station marshals (Go descriptor of `StationToDetector`)
and the `merge_from` of the detector's generated `src/signalling.rs` use the same tag (field number and
wire type), name and kind for every field, and neither side has a field the other lacks. -/
theorem wire_tags_match : CJ.Gen.C10.goWire = CJ.Gen.C10.rustWire := by decide

/-- **Enum values match**: every value of `IPProto` and `StationOperations` has the same number in the Go
descriptors as in the detector's `from_i32` tables. -/
theorem wire_enums_match : CJ.Gen.C10.goEnums = CJ.Gen.C10.rustEnums := by decide

/-- the numbers the model uses for the operations and protocols are those of the generated code on both
sides, and the detector's getters fall back to `Unk` / `Unknown` (what `convert` / `dispatch` assume for
absent and unknown values) -/
theorem model_enum_values_of_code :
    ("StationOperations", "new", opNew) ∈ CJ.Gen.C10.rustEnums ∧
    ("StationOperations", "update", opUpdate) ∈ CJ.Gen.C10.rustEnums ∧
    ("StationOperations", "clear", opClear) ∈ CJ.Gen.C10.rustEnums ∧
    ("IPProto", "tcp", protoTcp) ∈ CJ.Gen.C10.rustEnums ∧
    ("IPProto", "udp", protoUdp) ∈ CJ.Gen.C10.rustEnums ∧
    (∀ e ∈ CJ.Gen.C10.rustEnums, e.1 = "IPProto" → e.2.2 = protoTcp ∨ e.2.2 = protoUdp ∨ e.2.1 = "unk") ∧
    (∀ e ∈ CJ.Gen.C10.rustEnums, e.1 = "StationOperations" →
      e.2.2 = opNew ∨ e.2.2 = opUpdate ∨ e.2.2 = opClear ∨ e.2.1 = "unknown") ∧
    CJ.Gen.C10.rustEnumDefaults = [("IPProto", "unk"), ("StationOperations", "unknown")] := by
  decide

/-! ### the shutdown path of the station's `main` -/

/-- What `main` publishes on its way out, from the extracted facts: the signal loop ends, `main` cancels,
waits and returns, and the deferred `Cleanup()` publishes the clear message — provided the `defer` is an
unconditional statement placed before the station starts working on registrations and nothing after
that start ends the process without unwinding (`os.Exit`, `*.Fatal*`, `runtime.Goexit`, `panic`). -/
def shutdownMessage : Option S2D :=
  if CJ.Gen.C10.mainDefersCleanup = true ∧ CJ.Gen.C10.mainExitsAfterStart = [] then some CJ.Gen.C10.clearMsg else none

/-- **A station that shuts down clears the detector**: `main` reaches the deferred `Cleanup`, and the
message it publishes empties the detector's map whatever it held. -/
theorem shutdown_clears_detector (now : Nat) (m : Map) :
    ∃ msg, shutdownMessage = some msg ∧ handle now m msg = [] := by
  refine ⟨CJ.Gen.C10.clearMsg, by decide, clear_of_code_acted_on now m⟩

/-! ### C07 ∘ C10 -/

/-- the announcement the station makes for a registration that ingest built (New when it is validated,
Update once used) is accepted by the detector as that registration's session, with the station's own
lifetime for that state. -/
theorem admitted_announcement_accepted (c : CJ.Ingest.Cfg) (m : CJ.Ingest.Msg) (o : CJ.Ingest.Oracles)
    (f : CJ.Ingest.Fam) (hsel : CJ.Ingest.SelectorFam o) (r : CJ.Ingest.Reg)
    (hr : CJ.Ingest.regOf c m o f = some r)
    (hproto : o.proto = protoTcp ∨ o.proto = protoUdp)
    (hport : ∀ p, o.tpPort = some p → p < 65536) (st : RegState) :
    ∃ ph cl, ipOf r.phantom = some ph ∧ ipOf r.registrant = some cl ∧
      dispatch (announce { phantom := r.phantom, registrant := r.registrant, port := r.port, proto := r.proto } st) =
        .addOrUpdate { client := cl, phantom := ph, dstPort := r.port, srcPort := 0,
                       proto := nextHeader r.proto, timeout := stationLifetime st } :=
  timeouts_match _ (CJ.Props.C07.admitted_announceable c m o f hsel r hr hproto hport) st

/-! ### non-vacuity -/

def reg4 : Reg := { phantom := [192, 122, 190, 5], registrant := [0, 0, 0, 0, 0, 0, 0, 0, 0, 0, 0xff, 0xff, 203, 0, 113, 5], port := 443, proto := protoTcp }
def reg6 : Reg := { phantom := [0x20, 1, 0x48, 0xa8, 0x68, 0x7f, 0, 1, 0, 0, 0, 0, 0, 0, 0, 5], registrant := List.replicate 16 0, port := 50123, proto := protoUdp }

example : Announceable reg4 := ⟨by decide, by decide, by decide, by decide, by decide⟩
example : Announceable reg6 := ⟨by decide, by decide, by decide, by decide, by decide⟩
/-- the conditions of `accepted_iff` do exclude something: an IPv6 registrant with an IPv4 phantom -/
example : ¬ ∃ s, convert (mkS2D { reg4 with registrant := reg6.phantom } 1 opNew) = .ok s := by
  rw [accepted_iff]; decide
example : Map.get? (handle 0 [(.ext "left over", 99)] (announce reg4 .fresh)) (.ext "left over") = some 99 := by decide
example : handle 7 (handle 0 [(.ext "left over", 99)] (announce reg4 .fresh)) mkClear = [] := (clear_acted_on _ _).2

/-! the packet path: the registrant's flow is forwarded until the station's own expiry, through an Update,
an unrelated announcement and sweeps; another source is not forwarded (IPv4 tags carry the client); after
the lifetime the sweep drops the session -/
def flow4 (src : IpAddr) : Flow := { src := src, dst := .v4 [192, 122, 190, 5], dstPort := 443, proto := 6 }
def evs4 : List Evt :=
  [.sweep 5, .msg 7 (announce reg6 .fresh), .sweep (100 + tenMinutesNs - 1), .msg 9 (mkS2D reg4 3 opNew)]
example : ∀ e ∈ evs4, harmlessUntil (100 + stationLifetime .fresh) e := by decide
example : isTracked (run (handle 100 [(.ext "left over", 99)] (announce reg4 .fresh)) evs4) (flow4 (.v4 [203, 0, 113, 5])) = true := by decide
example : isTracked (run (handle 100 [] (announce reg4 .fresh)) evs4) (flow4 (.v4 [203, 0, 113, 6])) = false := by decide
example : isTracked (run (handle 100 [] (announce reg4 .fresh)) [.sweep (100 + tenMinutesNs)]) (flow4 (.v4 [203, 0, 113, 5])) = false := by decide
example : isTracked (run (handle 100 [] (announce reg4 .fresh)) [.msg 200 (announce reg4 .used), .sweep (200 + sixHoursNs - 1)])
    (flow4 (.v4 [203, 0, 113, 5])) = true := by decide
/-- an IPv6 phantom is forwarded from any source -/
example : isTracked (handle 0 [] (announce reg6 .used))
    { src := .v6 (List.replicate 16 7), dst := .v6 reg6.phantom, dstPort := 50123, proto := 17 } = true := by decide

end CJ.Props.C10
