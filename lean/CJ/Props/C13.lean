import CJ.Lemmas.RW
import CJ.Gen.LockPrograms
/-!
# C13 — the registrar keeps answering while its configuration is reloaded

Property theorems only.  The model (`CJ/Model/RW.lean`) is Go's `sync.RWMutex` with writer preference
around the swappable selector; a *state* is any number of threads, each with a remaining lock program.
The programs of the real code are the tables `Gen.bdReqPaths` / `Gen.reloadPaths`, regenerated from
`pkg/regserver/regprocessor/*.go` on every run; the last section states the property about them.
-/
namespace CJ.Props.C13
open CJ.RW

/-! ### the generic theorems: any number of threads, any flat programs, any schedule -/

/-- **Progress** (deadlock freedom): when every thread is in a state of the flat grammar (no acquisition
while holding, sections closed), then unless all threads have finished some thread can take a step. -/
theorem progress (s : St) (hok : ∀ t ∈ s.ths, t.ok = true) (hnd : ∃ t ∈ s.ths, t.done = false) :
    ∃ t ∈ s.ths, (stepThread s t).isSome = true :=
  CJ.RW.progress s hok hnd

/-- the same, as a statement about schedulable thread indices -/
theorem progress_index (s : St) (hok : ∀ t ∈ s.ths, t.ok = true) (hnd : allDone s = false) :
    ∃ i s', step s i = some s' :=
  CJ.RW.progress_index s hok hnd

/-- `ok` is preserved by every step of every thread … -/
theorem ok_preserved {s s' : St} {i : Nat} (h : step s i = some s') (hok : ∀ t ∈ s.ths, t.ok = true) :
    ∀ t ∈ s'.ths, t.ok = true :=
  ok_step h hok

/-- … hence by every schedule, and it holds initially for flat programs. -/
theorem ok_reachable (progs : List (List Op)) (hflat : ∀ p ∈ progs, flat p = true) (sched : List Nat) (s : St)
    (h : exec (init progs) sched = some s) : ∀ t ∈ s.ths, t.ok = true :=
  ok_exec h (ok_init progs hflat)

/-- **Termination**: every step strictly decreases the measure (2 per remaining operation, minus one for
an announced writer), so no schedule is longer than the measure of its initial state. -/
theorem terminates {s s' : St} {i : Nat} (h : step s i = some s') : measure s' < measure s :=
  measure_step h

theorem terminates_schedule {s s' : St} {sched : List Nat} (h : exec s sched = some s') :
    sched.length + measure s' ≤ measure s :=
  measure_exec h

/-- **No interleaving leaves the registrar blocked**: whatever has been scheduled so far (any number of
requests and reloads with flat programs), the state reached is finished or has an enabled thread, and it
can always be continued to a state where every request and every reload has completed. -/
theorem never_blocked (progs : List (List Op)) (hflat : ∀ p ∈ progs, flat p = true) (sched : List Nat) (s : St)
    (h : exec (init progs) sched = some s) :
    (allDone s = true ∨ ∃ i s', step s i = some s') ∧
    ∃ rest s', exec s rest = some s' ∧ allDone s' = true := by
  have hok := ok_reachable progs hflat sched s h
  refine ⟨?_, can_complete (measure s) s (Nat.le_refl _) hok⟩
  cases hd : allDone s with
  | true => exact Or.inl rfl
  | false => exact Or.inr (CJ.RW.progress_index s hok hd)

/-- a maximal run (nothing enabled any more) has completed everything: the only stuck states are final -/
theorem stuck_only_when_done (progs : List (List Op)) (hflat : ∀ p ∈ progs, flat p = true) (sched : List Nat) (s : St)
    (h : exec (init progs) sched = some s) (hstuck : ∀ i, step s i = none) : allDone s = true := by
  rcases (never_blocked progs hflat sched s h).1 with hd | ⟨i, s', hs⟩
  · exact hd
  · rw [hstuck i] at hs; cases hs

/-- the writer excludes readers in every reachable state -/
theorem mutual_exclusion (progs : List (List Op)) (sched : List Nat) (s : St)
    (h : exec (init progs) sched = some s) : Excl s := by
  have : ∀ (sched : List Nat) (s0 : St), Excl s0 → exec s0 sched = some s → Excl s := by
    intro sched
    induction sched with
    | nil => intro s0 h0 he; simp [exec] at he; subst he; exact h0
    | cons i is ih =>
      intro s0 h0 he
      simp only [exec] at he
      cases hs : step s0 i with
      | none => simp [hs] at he
      | some s1 => simp only [hs] at he; exact ih s1 (excl_step hs h0) he
  exact this sched _ (excl_init progs) h

/-- **Old or new in full**: a request whose selector reads lie in one read section (and that never
touches the write side) uses one selector version for all its `Select` calls — in every state reached
by any schedule, next to any number of other flat threads (requests and reloads). -/
theorem old_or_new_in_full (progs : List (List Op)) (hflat : ∀ p ∈ progs, flat p = true)
    (j : Nat) (p : List Op) (hj : progs[j]? = some p) (hr : readerProg p = true) (h1 : oneSection p = true)
    (sched : List Nat) (s : St) (h : exec (init progs) sched = some s) :
    ∃ t v, s.ths[j]? = some t ∧ ∀ x ∈ t.seen, x = some v := by
  have hj0 : (init progs).ths[j]? = some { prog := p } := by simp [init, hj]
  have hv0 : View { prog := p } (init progs).ver :=
    view_init p (hflat p (List.mem_of_getElem? hj)) hr h1 _
  obtain ⟨t, ht, hv⟩ := view_exec h (ok_init progs hflat) (excl_init progs) hj0 hv0
  obtain ⟨v, hs⟩ := view_seen hv
  exact ⟨t, v, ht, hs⟩

/-! ### the real code: tables regenerated from the source on every run -/

/-- every path through `processBdReq` (v4 only, v6 only, dual stack, error exits; `defer` expanded) is flat -/
theorem bdreq_programs_flat : ∀ p ∈ Gen.bdReqPrograms, flat p = true := by decide

/-- every path through `ReloadSubnets` is flat -/
theorem reload_programs_flat : ∀ p ∈ Gen.reloadPrograms, flat p = true := by decide

/-- every path through `processBdReq` reads the selector in one section, only under the read lock -/
theorem bdreq_programs_one_section :
    ∀ p ∈ Gen.bdReqPrograms, readerProg p = true ∧ oneSection p = true := by decide

/-- **C13 for the extracted programs.** Any number of requests, each following any path through
`processBdReq`, next to any number of reloads: every reachable state is finished or can step, every run can
be completed, no run is longer than the initial measure, and every request has used one selector version
for all its selections. -/
theorem registrar_keeps_answering (reqs rels : List (List Op))
    (hreq : ∀ p ∈ reqs, p ∈ Gen.bdReqPrograms) (hrel : ∀ p ∈ rels, p ∈ Gen.reloadPrograms)
    (sched : List Nat) (s : St) (h : exec (init (reqs ++ rels)) sched = some s) :
    (allDone s = true ∨ ∃ i s', step s i = some s') ∧
    (∃ rest s', exec s rest = some s' ∧ allDone s' = true) ∧
    sched.length + measure s ≤ measure (init (reqs ++ rels)) ∧
    ∀ j, j < reqs.length → ∃ t v, s.ths[j]? = some t ∧ ∀ x ∈ t.seen, x = some v := by
  have hflat : ∀ p ∈ reqs ++ rels, flat p = true := by
    intro p hp
    rcases List.mem_append.mp hp with hp | hp
    · exact bdreq_programs_flat p (hreq p hp)
    · exact reload_programs_flat p (hrel p hp)
  obtain ⟨hprog, hcomp⟩ := never_blocked _ hflat sched s h
  refine ⟨hprog, hcomp, measure_exec h, ?_⟩
  intro j hjlt
  have hj : (reqs ++ rels)[j]? = some reqs[j] := by
    rw [List.getElem?_append_left hjlt, List.getElem?_eq_getElem hjlt]
  have hmem := hreq reqs[j] (List.getElem_mem hjlt)
  obtain ⟨hr, h1⟩ := bdreq_programs_one_section _ hmem
  exact old_or_new_in_full _ hflat j _ hj hr h1 sched s h

/-! ### the statements are not vacuous, and flatness is what matters -/

/-- the shape of the dual-stack path before the repair: a second `RLock` while the first is held -/
def nestedDual : List Op := [.rlock, .readSel, .select, .rlock, .readSel, .select, .runlock, .runlock]

example : flat nestedDual = false := by decide

/-- … and it does deadlock with one reload: request reads (3 steps), reload announces, request blocks -/
theorem nested_deadlocks : ∃ sched s, exec (init [nestedDual, [.lock, .swapSel, .unlock]]) sched = some s ∧
    allDone s = false ∧ ∀ i, step s i = none := by
  refine ⟨[0, 0, 0, 1], _, rfl, by decide, ?_⟩
  intro i
  match i with
  | 0 => decide
  | 1 => decide
  | n + 2 => rfl

-- hypotheses are satisfiable: a dual-stack request, a v4 request and two reloads, part-way through a run
example : ∃ s, exec (init ([[.rlock, .readSel, .runlock, .select, .select], [.rlock, .readSel, .runlock, .select]] ++
    [[.lock, .swapSel, .unlock], [.lock, .swapSel, .unlock]])) [0, 2, 0, 0, 2, 2, 2, 1, 0, 3] = some s ∧ s.ver = 1 :=
  ⟨_, rfl, rfl⟩

end CJ.Props.C13
