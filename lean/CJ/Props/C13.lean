import CJ.Lemmas.RW
import CJ.Gen.LockPrograms
import CJ.Lemmas.ReloadPath
import CJ.Gen.ReloadPath
/-!
# C13 — the registrar keeps answering while its configuration is reloaded

Property theorems only.  The model (`CJ/Model/RW.lean`) is Go's `sync.RWMutex` with writer preference
around the swappable selector; a *state* is any number of threads, each with a remaining lock program.
The programs of the real code are the tables `Gen.selectorPaths` / `Gen.zmqPaths` (every path through every
exported entry point of the package that touches the lock), regenerated from
`pkg/regserver/regprocessor/*.go` on every run; the last section states the property about them.
-/
namespace CJ.Props.C13
open CJ.RW

/-! ### the generic theorems: any number of threads, any flat programs, any schedule -/

/-- **Progress** (deadlock freedom): when every thread is in a state of the flat grammar (no acquisition
while holding, sections closed), then unless all threads have finished some thread can take a step. -/
theorem progress (s : St) (hok : ∀ t ∈ s.ths, t.ok = true) (hnd : ∃ t ∈ s.ths, t.done = false) :
    ∃ t ∈ s.ths, (stepThread s t).isSome = true :=
  CJ.RW.progress s hok hnd

/-- the same, as a statement about schedulable thread indices -/
theorem progress_index (s : St) (hok : ∀ t ∈ s.ths, t.ok = true) (hnd : allDone s = false) :
    ∃ i s', step s i = some s' :=
  CJ.RW.progress_index s hok hnd

/-- `ok` is preserved by every step of every thread … -/
theorem ok_preserved {s s' : St} {i : Nat} (h : step s i = some s') (hok : ∀ t ∈ s.ths, t.ok = true) :
    ∀ t ∈ s'.ths, t.ok = true :=
  ok_step h hok

/-- … hence by every schedule, and it holds initially for flat programs. -/
theorem ok_reachable (progs : List (List Op)) (hflat : ∀ p ∈ progs, flat p = true) (sched : List Nat) (s : St)
    (h : exec (init progs) sched = some s) : ∀ t ∈ s.ths, t.ok = true :=
  ok_exec h (ok_init progs hflat)

/-- **Termination**: every step strictly decreases the measure (2 per remaining operation, minus one for
an announced writer), so no schedule is longer than the measure of its initial state. -/
theorem terminates {s s' : St} {i : Nat} (h : step s i = some s') : measure s' < measure s :=
  measure_step h

theorem terminates_schedule {s s' : St} {sched : List Nat} (h : exec s sched = some s') :
    sched.length + measure s' ≤ measure s :=
  measure_exec h

/-- **No interleaving leaves the registrar blocked**: whatever has been scheduled so far (any number of
requests and reloads with flat programs), the state reached is finished or has an enabled thread, and it
can always be continued to a state where every request and every reload has completed. -/
theorem never_blocked (progs : List (List Op)) (hflat : ∀ p ∈ progs, flat p = true) (sched : List Nat) (s : St)
    (h : exec (init progs) sched = some s) :
    (allDone s = true ∨ ∃ i s', step s i = some s') ∧
    ∃ rest s', exec s rest = some s' ∧ allDone s' = true := by
  have hok := ok_reachable progs hflat sched s h
  refine ⟨?_, can_complete (measure s) s (Nat.le_refl _) hok⟩
  cases hd : allDone s with
  | true => exact Or.inl rfl
  | false => exact Or.inr (CJ.RW.progress_index s hok hd)

/-- a maximal run (nothing enabled any more) has completed everything: the only stuck states are final -/
theorem stuck_only_when_done (progs : List (List Op)) (hflat : ∀ p ∈ progs, flat p = true) (sched : List Nat) (s : St)
    (h : exec (init progs) sched = some s) (hstuck : ∀ i, step s i = none) : allDone s = true := by
  rcases (never_blocked progs hflat sched s h).1 with hd | ⟨i, s', hs⟩
  · exact hd
  · rw [hstuck i] at hs; cases hs

/-- the writer excludes readers in every reachable state -/
theorem mutual_exclusion (progs : List (List Op)) (sched : List Nat) (s : St)
    (h : exec (init progs) sched = some s) : Excl s := by
  have : ∀ (sched : List Nat) (s0 : St), Excl s0 → exec s0 sched = some s → Excl s := by
    intro sched
    induction sched with
    | nil => intro s0 h0 he; simp [exec] at he; subst he; exact h0
    | cons i is ih =>
      intro s0 h0 he
      simp only [exec] at he
      cases hs : step s0 i with
      | none => simp [hs] at he
      | some s1 => simp only [hs] at he; exact ih s1 (excl_step hs h0) he
  exact this sched _ (excl_init progs) h

/-- **Old or new in full**: a request whose selector reads lie in one read section (and that never
touches the write side) uses one selector version for all its `Select` calls — in every state reached
by any schedule, next to any number of other flat threads (requests and reloads). -/
theorem old_or_new_in_full (progs : List (List Op)) (hflat : ∀ p ∈ progs, flat p = true)
    (j : Nat) (p : List Op) (hj : progs[j]? = some p) (hr : readerProg p = true) (h1 : oneSection p = true)
    (sched : List Nat) (s : St) (h : exec (init progs) sched = some s) :
    ∃ t v, s.ths[j]? = some t ∧ ∀ x ∈ t.seen, x = some v := by
  have hj0 : (init progs).ths[j]? = some { prog := p } := by simp [init, hj]
  have hv0 : View { prog := p } (init progs).ver :=
    view_init p (hflat p (List.mem_of_getElem? hj)) hr h1 _
  obtain ⟨t, ht, hv⟩ := view_exec h (ok_init progs hflat) (excl_init progs) hj0 hv0
  obtain ⟨v, hs⟩ := view_seen hv
  exact ⟨t, v, ht, hs⟩

/-- **Answered, not turned away.** A request or reload whose program takes the lock by waiting only
(`RLock` / `Lock`, no `TryRLock` / `TryLock`) is never *refused* — it never returns an error because the lock
happened to be busy — in any state reached by any schedule, next to any number of other threads whatever
their programs are (flat or not, with or without `Try*`). -/
theorem never_refused (progs : List (List Op)) (j : Nat) (p : List Op) (hj : progs[j]? = some p)
    (hb : blocking p = true) (sched : List Nat) (s : St) (h : exec (init progs) sched = some s) :
    ∃ t, s.ths[j]? = some t ∧ t.refused = false := by
  have hj0 : (init progs).ths[j]? = some { prog := p } := by simp [init, hj]
  obtain ⟨t, ht, ha⟩ := answered_exec h hj0 ⟨rfl, hb⟩
  exact ⟨t, ht, ha.1⟩

/-- … so when every program waits, every thread that has finished has done its work -/
theorem none_refused (progs : List (List Op)) (hb : ∀ p ∈ progs, blocking p = true) (sched : List Nat) (s : St)
    (h : exec (init progs) sched = some s) : anyRefused s = false := by
  have ha := answered_all_exec h (answered_init progs hb)
  unfold anyRefused
  rw [List.any_eq_false]
  intro t ht
  simp [(ha t ht).1]

/-! ### the real code: tables regenerated from the source on every run

`Gen.selectorPaths` / `Gen.zmqPaths` hold every path through every exported entry point of
`pkg/regserver/regprocessor` that operates on `selectorMutex` / `zmqMutex` (callees inlined, `defer`
expanded); code outside the package cannot name the unexported mutexes, so these are all the programs a
goroutine can run against the two locks.  `Gen.coverage` is the extractor's own account: how often each
name occurs in the sources and how many of the occurrences the paths visit. -/

/-- every path through every entry point that touches `selectorMutex` (`RegisterBidirectional` with
`processBdReq` inlined: v4 only, v6 only, dual stack, error exits; `ReloadSubnets`; whatever else the
package exports) is flat -/
theorem selector_programs_flat : ∀ p ∈ Gen.selectorPrograms, flat p = true := by decide

/-- every acquisition of `selectorMutex`, on every path through every entry point, waits for the lock
(`RLock` in the requests, `Lock` in the reload): no `TryRLock` / `TryLock`, hence no branch in which a request
or a reload gives up because the other side is in its critical section -/
theorem selector_programs_blocking : ∀ p ∈ Gen.selectorPrograms, blocking p = true := by decide

/-- every path that stays on the read side reads the selector in one section, before its first `Select` -/
theorem reader_programs_one_section :
    ∀ p ∈ Gen.selectorPrograms, readerProg p = true → oneSection p = true := by decide

/-- every path through every entry point that touches `zmqMutex` (`RegisterUnidirectional`,
`RegisterBidirectional` via `sendToZMQ`) is a sequence of `Lock; Unlock` pairs: every `Lock` is followed
by its `Unlock` before the entry point returns, on the error exits too -/
theorem zmq_programs_balanced : ∀ p ∈ Gen.zmqPrograms, balanced p = true := by decide

theorem zmq_programs_flat : ∀ p ∈ Gen.zmqPrograms, flat p = true :=
  fun p hp => balanced_flat p (zmq_programs_balanced p hp)

/-- … and waits for the lock (a balanced program consists of `Lock` / `Unlock` only) -/
theorem zmq_programs_blocking : ∀ p ∈ Gen.zmqPrograms, blocking p = true := by
  intro p hp
  have h := balanced_mutex_only p (zmq_programs_balanced p hp)
  unfold blocking
  rw [List.all_eq_true]
  intro o ho
  rcases h o ho with rfl | rfl <;> decide

/-- the extractor's coverage obligation: each occurrence of `selectorMutex`, `ipSelector`, `zmqMutex` in
the non-test sources is visited by a path of the tables or is an access to an object that the same
function has just constructed — and the three names do occur -/
theorem extractor_covers :
    (∀ c ∈ Gen.coverage, c.2.1 = c.2.2.1 + c.2.2.2 ∧ 0 < c.2.2.1) ∧
    ∀ n ∈ ["selectorMutex", "ipSelector", "zmqMutex"], Gen.coverage.any (fun c => c.1 == n) = true := by decide

/-- the tables contain the entry points the property is about, with a path that does something -/
theorem tables_cover_entry_points :
    (∀ r ∈ ["RegProcessor.RegisterBidirectional", "RegProcessor.ReloadSubnets"],
      Gen.selectorPaths.any (fun p => p.root == r && !p.ops.isEmpty) = true) ∧
    (∀ r ∈ ["RegProcessor.RegisterBidirectional", "RegProcessor.RegisterUnidirectional"],
      Gen.zmqPaths.any (fun p => p.root == r && !p.ops.isEmpty) = true) ∧
    Gen.selectorPrograms.any (fun p => p.contains .swapSel) = true ∧
    Gen.selectorPrograms.any (fun p => (p.filter (· == .select)).length = 2) = true := by decide

/-- the two mutexes are never requested in both orders (and none while it is itself held): over every path
through every entry point, with the operations on both locks in one program.  A static lock-order fact
that complements the per-lock theorems below (the model has one lock at a time). -/
theorem lock_order_acyclic :
    orderAcyclic (Gen.lockOrderPaths.flatMap fun p => nestings p.2) = true := by decide

-- `nestings` sees a lock taken inside another one, and `orderAcyclic` rejects the two orders together
example : nestings [(0, .rlock), (1, .lock), (1, .unlock), (0, .runlock)] = [(0, 1)] := by decide
example : orderAcyclic (nestings [(0, .rlock), (1, .lock), (1, .unlock), (0, .runlock)] ++
    nestings [(1, .lock), (0, .rlock), (0, .runlock), (1, .unlock)]) = false := by decide
example : orderAcyclic (nestings [(0, .rlock), (0, .rlock), (0, .runlock), (0, .runlock)]) = false := by decide

/-- **C13 for the extracted programs.** Any number of goroutines, each following any path through any
entry point that touches the selector lock (requests of every kind, reloads): every reachable state is
finished or can step, every run can be completed — to a state in which everything has finished and nobody
has been refused —, no run is longer than the initial measure, nobody is ever refused (no request or reload
returns an error because the lock was busy), and every thread that stays on the read side (every request)
has used one selector version for all its selections. -/
theorem registrar_keeps_answering (progs : List (List Op))
    (hp : ∀ p ∈ progs, p ∈ Gen.selectorPrograms)
    (sched : List Nat) (s : St) (h : exec (init progs) sched = some s) :
    (allDone s = true ∨ ∃ i s', step s i = some s') ∧
    (∃ rest s', exec s rest = some s' ∧ allDone s' = true ∧ anyRefused s' = false) ∧
    sched.length + measure s ≤ measure (init progs) ∧
    anyRefused s = false ∧
    ∀ (j : Nat) (p : List Op), progs[j]? = some p → readerProg p = true →
      ∃ t v, s.ths[j]? = some t ∧ ∀ x ∈ t.seen, x = some v := by
  have hflat : ∀ p ∈ progs, flat p = true := fun p hm => selector_programs_flat p (hp p hm)
  have hblk : ∀ p ∈ progs, blocking p = true := fun p hm => selector_programs_blocking p (hp p hm)
  obtain ⟨hprog, rest, s', hrest, hdone⟩ := never_blocked _ hflat sched s h
  refine ⟨hprog, ⟨rest, s', hrest, hdone, none_refused _ hblk (sched ++ rest) s' (exec_append h hrest)⟩,
    measure_exec h, none_refused _ hblk sched s h, ?_⟩
  intro j p hj hr
  have hmem := hp p (List.mem_of_getElem? hj)
  exact old_or_new_in_full _ hflat j p hj hr (reader_programs_one_section p hmem hr) sched s h

/-- the same for the publishing lock: any number of goroutines, each following any path through any entry
point that touches `zmqMutex` — nobody is ever left waiting for it, every run can be completed -/
theorem zmq_keeps_sending (progs : List (List Op))
    (hp : ∀ p ∈ progs, p ∈ Gen.zmqPrograms)
    (sched : List Nat) (s : St) (h : exec (init progs) sched = some s) :
    (allDone s = true ∨ ∃ i s', step s i = some s') ∧
    (∃ rest s', exec s rest = some s' ∧ allDone s' = true) ∧
    sched.length + measure s ≤ measure (init progs) := by
  have hflat : ∀ p ∈ progs, flat p = true := fun p hm => zmq_programs_flat p (hp p hm)
  obtain ⟨hprog, hcomp⟩ := never_blocked _ hflat sched s h
  exact ⟨hprog, hcomp, measure_exec h⟩

/-! ### the statements are not vacuous, and flatness is what matters -/

/-- the shape of the dual-stack path before the repair: a second `RLock` while the first is held -/
def nestedDual : List Op := [.rlock, .readSel, .select, .rlock, .readSel, .select, .runlock, .runlock]

example : flat nestedDual = false := by decide

/-- … and it does deadlock with one reload: request reads (3 steps), reload announces, request blocks -/
theorem nested_deadlocks : ∃ sched s, exec (init [nestedDual, [.lock, .swapSel, .unlock]]) sched = some s ∧
    allDone s = false ∧ ∀ i, step s i = none := by
  refine ⟨[0, 0, 0, 1], _, rfl, by decide, ?_⟩
  intro i
  match i with
  | 0 => decide
  | 1 => decide
  | n + 2 => rfl

/-- the shape a read lock taken by the *caller* of `processBdReq` gives (an outer section around the inner
one): not flat, and it deadlocks with one reload that arrives between the two acquisitions -/
def nestedOuter : List Op := [.rlock, .rlock, .readSel, .runlock, .select, .runlock]

example : flat nestedOuter = false := by decide

theorem outer_nested_deadlocks : ∃ sched s, exec (init [nestedOuter, [.lock, .swapSel, .unlock]]) sched = some s ∧
    allDone s = false ∧ ∀ i, step s i = none := by
  refine ⟨[0, 1], _, rfl, by decide, ?_⟩
  intro i
  match i with
  | 0 => decide
  | 1 => decide
  | n + 2 => rfl

/-- a path that returns between `Lock` and `Unlock` is not balanced, and the next sender waits for ever -/
theorem leaked_lock_blocks : balanced [Op.lock] = false ∧
    ∃ sched s, exec (init [[Op.lock], [.lock, .unlock]]) sched = some s ∧ allDone s = false ∧ ∀ i, step s i = none := by
  refine ⟨by decide, [0, 0], _, rfl, by decide, ?_⟩
  intro i
  match i with
  | 0 => decide
  | 1 => decide
  | n + 2 => rfl

/-- the shape `TryRLock` in front of the snapshot gives a request: flat, but not waiting -/
def tryRequest : List Op := [.tryrlock, .readSel, .runlock, .select]

example : flat tryRequest = true ∧ blocking tryRequest = false := by decide

/-- **Waiting is what matters for being answered**: a request that tries the read lock instead of waiting
for it is turned away (it finishes refused, without having selected anything) when it arrives while a
reload is inside its critical section … -/
theorem try_request_refused_while_reload_swaps :
    ∃ sched s t, exec (init [tryRequest, [.lock, .swapSel, .unlock]]) sched = some s ∧
      s.ths[0]? = some t ∧ t.done = true ∧ t.refused = true ∧ t.seen = [] :=
  ⟨[1, 1, 0], _, _, rfl, rfl, rfl, rfl, rfl⟩

/-- … and also while a reload is only waiting for the write lock behind another request's read section
(thread 2 keeps a read section open: `gate`) -/
theorem try_request_refused_behind_pending_reload :
    ∃ sched s t, exec (init [tryRequest, [.lock, .swapSel, .unlock], [.rlock, .gate, .runlock]]) sched = some s ∧
      s.ths[0]? = some t ∧ t.done = true ∧ t.refused = true ∧ t.seen = [] :=
  ⟨[2, 1, 0], _, _, rfl, rfl, rfl, rfl, rfl⟩

/-- the same on the write side: a reload that tries the write lock gives up while a request reads, and the
selector is never swapped although everything has finished -/
theorem try_reload_refused_while_request_reads :
    ∃ sched s t, exec (init [[.trylock, .swapSel, .unlock], [.rlock, .readSel, .runlock, .select]]) sched = some s ∧
      s.ths[0]? = some t ∧ t.refused = true ∧ allDone s = true ∧ s.ver = 0 :=
  ⟨[1, 0, 1, 1, 1], _, _, rfl, rfl, rfl, rfl, rfl⟩

-- the waiting programs in the same schedules: the request waits behind the reload and is answered with the new set
example : ∃ s t, exec (init [[.rlock, .readSel, .runlock, .select], [.lock, .swapSel, .unlock]]) [1, 1, 1, 1, 0, 0, 0, 0] = some s ∧
    s.ths[0]? = some t ∧ t.refused = false ∧ t.seen = [some 1] ∧ allDone s = true :=
  ⟨_, _, rfl, rfl, rfl, rfl, rfl⟩
example : step ((exec (init [[.rlock, .readSel, .runlock, .select], [.lock, .swapSel, .unlock]]) [1, 1]).getD default) 0 = none := rfl

-- hypotheses are satisfiable: a dual-stack request, a v4 request and two reloads, part-way through a run
example : ∃ s, exec (init ([[.rlock, .readSel, .runlock, .select, .select], [.rlock, .readSel, .runlock, .select]] ++
    [[.lock, .swapSel, .unlock], [.lock, .swapSel, .unlock]])) [0, 2, 0, 0, 2, 2, 2, 1, 0, 3] = some s ∧ s.ver = 1 :=
  ⟨_, rfl, rfl⟩


/-! ### the whole reload path: every mutex, every entry point, the SIGHUP goroutine

`Gen.ReloadPath` is regenerated on every run by `go/extract/reloadpath` (go/ast + go/types) from
cmd/registration-server and every package of the repository it imports: per entry point of
cmd/registration-server and pkg/regserver/* (exported functions and methods, the HTTP handlers and the DNS
callback whose values are taken, the goroutines `main` starts - the SIGHUP goroutine among them), every path
with the operations on *every* mutex it reaches (`ccMutex` of the API registrar, `selectorMutex`, `zmqMutex`, the
metrics' `rwMutex`), callees inlined across packages and through interfaces. -/

section ReloadPath
open CJ.ReloadPath
open CJ.Gen.ReloadPath (lockPaths mutexes sighupRounds sighupExits sighupFound sighupEndless sighupHandlesSIGHUP)

/-- **No recursive read lock** (nor any other second acquisition): no path through any entry point of the reload
path asks for a mutex - `RLock`, `Lock`, `TryRLock`, `TryLock` - that it already holds.  An accessor that takes
`ccMutex.RLock` called from a function that holds `ccMutex.RLock` is what this excludes. -/
theorem no_recursive_read_lock : ∀ p ∈ lockPaths, reacquired p.2 = [] := by decide

/-- … which is what the per-lock theorems need: projected onto each mutex, every path is *flat* (no acquisition
while holding, every section closed before the entry point returns or the reload goroutine's round ends) -/
theorem reload_path_programs_flat :
    ∀ k ∈ List.range mutexes.length, ∀ p ∈ lockPaths, flat (proj k p.2) = true := by decide

/-- and every acquisition waits (no `Try*`: nobody gives up because a reload is in progress) -/
theorem reload_path_programs_blocking :
    ∀ k ∈ List.range mutexes.length, ∀ p ∈ lockPaths, blocking (proj k p.2) = true := by decide

/-- across the mutexes: no two are ever requested in both orders (and none while it is itself held) -/
theorem reload_path_lock_order_acyclic : orderAcyclic (lockPaths.flatMap fun p => nestings p.2) = true := by decide

/-- mutex `m` is in the table, a round of the reload goroutine takes its write lock and a path of another entry
point its read lock -/
def writtenByReloadReadByRequests (m : String) : Bool :=
  match mutexes.findIdx? (fun x => x.1 == m) with
  | some k => sighupRounds.any (fun r => r.contains (.lk k .lock)) &&
      lockPaths.any (fun p => p.1 != Gen.ReloadPath.sighupRoot && p.2.contains (k, .rlock))
  | none => false

/-- the walker's account: every lock-operation call site on one of these mutexes, anywhere in scope, lies on a
path from an entry point; no function value is called while a lock is held (such a call could not be followed);
the table has the entry points the property is about, and the reload goroutine reaches both `ccMutex` (write
side) and `selectorMutex` (write side) -/
theorem reload_path_extractor_covers :
    (∀ c ∈ Gen.ReloadPath.coverage, c.2.1 = c.2.2 ∧ 0 < c.2.1) ∧ Gen.ReloadPath.unreached = [] ∧
    Gen.ReloadPath.opaqueCallsUnderLock = [] ∧
    (∀ r ∈ ["apiregserver.APIRegServer.registerBidirectional", "apiregserver.APIRegServer.register",
        "dnsregserver.DNSRegServer.processRequest", "apiregserver.APIRegServer.NewClientConf",
        "regprocessor.RegProcessor.ReloadSubnets", "regprocessor.RegProcessor.RegisterBidirectional"],
      lockPaths.any (fun p => p.1 == r && !p.2.isEmpty) = true) ∧
    (∀ m ∈ ["apiregserver.APIRegServer.ccMutex", "regprocessor.RegProcessor.selectorMutex"],
      writtenByReloadReadByRequests m = true) := by decide

/-- **C13 for each mutex of the reload path.** Any number of goroutines, each following any path through any entry
point (API and DNS requests, `NewClientConf`, `ReloadSubnets`, rounds of the SIGHUP goroutine, the metrics
logger), seen on any one mutex `k`: every reachable state is finished or can step, every run can be completed
with nobody refused, no run is longer than the initial measure.  The hypothesis of `never_blocked` /
`none_refused` - flat, waiting programs - is exactly what `reload_path_programs_flat` /
`reload_path_programs_blocking` establish for the regenerated table. -/
theorem reload_path_keeps_answering (k : Nat) (hk : k ∈ List.range mutexes.length) (progs : List (List Op))
    (hp : ∀ q ∈ progs, ∃ p ∈ lockPaths, q = proj k p.2)
    (sched : List Nat) (s : St) (h : exec (init progs) sched = some s) :
    (allDone s = true ∨ ∃ i s', step s i = some s') ∧
    (∃ rest s', exec s rest = some s' ∧ allDone s' = true ∧ anyRefused s' = false) ∧
    sched.length + measure s ≤ measure (init progs) ∧ anyRefused s = false := by
  have hflat : ∀ q ∈ progs, flat q = true := by
    intro q hq; obtain ⟨p, hpm, rfl⟩ := hp q hq; exact reload_path_programs_flat k hk p hpm
  have hblk : ∀ q ∈ progs, blocking q = true := by
    intro q hq; obtain ⟨p, hpm, rfl⟩ := hp q hq; exact reload_path_programs_blocking k hk p hpm
  obtain ⟨hprog, rest, s', hrest, hdone⟩ := never_blocked _ hflat sched s h
  exact ⟨hprog, ⟨rest, s', hrest, hdone, none_refused _ hblk (sched ++ rest) s' (exec_append h hrest)⟩,
    measure_exec h, none_refused _ hblk sched s h⟩

/-- the shape a read-locking accessor called under the same read lock gives a request -/
def recursiveReader : List Op := [.rlock, .rlock, .runlock, .runlock]

example : flat recursiveReader = false ∧ reacquired (recursiveReader.map ((0 : Nat), ·)) = [0] := by decide

/-- **Go's writer preference makes a recursive reader deadlock**: the request takes the read lock, the reload
(`NewClientConf`: `Lock … Unlock`) announces itself, the request's second `RLock` is refused because a writer is
pending, the writer waits for the first read lock - nothing can step, nothing has finished; and every later
reader is stuck behind the pending writer as well. -/
theorem recursive_reader_deadlocks :
    ∃ sched s, exec (init [recursiveReader, [.lock, .unlock], [.rlock, .runlock]]) sched = some s ∧
      allDone s = false ∧ ∀ i, step s i = none := by
  refine ⟨[0, 1], _, rfl, by decide, ?_⟩
  intro i
  match i with
  | 0 => decide
  | 1 => decide
  | 2 => decide
  | n + 3 => rfl

/-- **The reload loop never exits**: `main` starts a goroutine that receives from the channel it gave to
`signal.Notify`; its loop has no condition, the reload is handled in its body for SIGHUP, and neither the body nor
any function of the repository it calls contains a statement that leaves the loop or ends the goroutine or the
process (`return`, `break`, `goto`, `os.Exit`, `log.Fatal*`, `panic`, `runtime.Goexit`): every failure path goes
on to the next round. -/
theorem reload_loop_never_exits :
    sighupFound = true ∧ sighupEndless = true ∧ sighupHandlesSIGHUP = true ∧ sighupExits = [] := by decide

/-- … so every reload signal is served, whatever came before it (a refused reload in particular) -/
theorem every_reload_signal_served (leaves : Nat → Bool) (h : ∀ i, leaves i = false) (sigs : List Bool) :
    served leaves 0 sigs = sigs.count true :=
  served_all leaves h sigs 0

/-- a path that leaves the loop (a `return` after a refused reload, say) drops every later signal -/
theorem exit_after_refused_reload_drops_later_signals :
    served (fun i => i == 0) 0 [true, true, true] = 1 := by decide

/-- **Subnets before the generation that refers to them.** On every path through one round of the reload loop
that replaces the phantom selector, the selector is written before any ClientConf generation is published (API
registrar's `latestClientConf`, DNS registrar's `latestCCGen`) … -/
theorem reload_round_subnets_first :
    (∀ r ∈ sighupRounds, hasSelWrite r = true → genAfterSel r = true) ∧
    sighupRounds.any (fun r => hasSelWrite r && r.contains (.wr apiGenField) && r.contains (.wr dnsGenField)) = true := by
  decide

/-- … hence a request that arrives at any point of such a round - after any prefix of its steps - finds a
configuration in which the generation a registrar may substitute is one the installed subnet set has: provided
the two files of the reload are consistent (the new ClientConf generation is in the new subnet file) and the new
subnet file still has the generation(s) in force (generations are added before they are switched to). -/
theorem reload_publishes_generation_after_subnets (r : List Eff) (hr : r ∈ sighupRounds) (hsel : hasSelWrite r = true)
    (c : Cfg) (n : New) (hc : Consistent c) (hn : n.gen ∈ n.sel) (ha : c.apiGen ∈ n.sel) (hd : c.dnsGen ∈ n.sel)
    (k : Nat) : Consistent (run n c (r.take k)) :=
  prefixes_consistent n hn r false c (reload_round_subnets_first.1 r hr hsel) hc ha hd (fun h => by cases h) k

/-- in a consistent configuration every outdated client of the API registrar (whose generation the registrar replaces
by its own) is answered -/
theorem outdated_client_answered (c : Cfg) (h : Consistent c) (g : Nat) (hg : g < c.apiGen) :
    answered c .api g = true := by
  simp only [answered, effectiveGen, if_pos hg, List.contains_eq_mem, decide_eq_true_eq]
  exact h.1

/-- … hence at every point of a reload round that replaces the selector: **requests of outdated clients that arrive
while the reload is in progress are answered** -/
theorem outdated_clients_answered_throughout_reload (r : List Eff) (hr : r ∈ sighupRounds) (hsel : hasSelWrite r = true)
    (c : Cfg) (n : New) (hc : Consistent c) (hn : n.gen ∈ n.sel) (ha : c.apiGen ∈ n.sel) (hd : c.dnsGen ∈ n.sel)
    (k : Nat) (g : Nat) (hg : g < (run n c (r.take k)).apiGen) : answered (run n c (r.take k)) .api g = true :=
  outdated_client_answered _ (reload_publishes_generation_after_subnets r hr hsel c n hc hn ha hd k) g hg

/-- the order matters: publishing first leaves, between the two steps, a generation the installed set lacks -/
theorem publishing_first_breaks_consistency :
    ∃ (c : Cfg) (n : New) (k : Nat), Consistent c ∧ n.gen ∈ n.sel ∧ c.apiGen ∈ n.sel ∧ c.dnsGen ∈ n.sel ∧
      ¬ Consistent (run n c ([Eff.wr apiGenField, .wr dnsGenField, .wr selectorField].take k)) :=
  ⟨⟨[100], 100, 100⟩, ⟨[100, 101], 101⟩, 1, by decide, by decide, by decide, by decide, by decide⟩

/-- What is *not* claimed: a round in which the subnet file could not be loaded (no selector write) still
publishes the new ClientConf generation - the handler logs "aborting reload" and goes on. Such rounds are in the
table; for them consistency needs the new generation to be in the *old* subnet set. -/
example : sighupRounds.any (fun r => !hasSelWrite r && hasGenWrite r) = true := by decide

end ReloadPath

end CJ.Props.C13
