import CJ.Props.C06Split

/-!
# C06: `Contains` as whole-address arithmetic

`prefixAgree` (byte-wise agreement on the first `ones` bits, `CJ.Props.C06Split`) is the equality of the two
big-endian numbers after a right shift by the host bits.
-/

namespace CJ.Props.C06Prefix
open CJ.NetAddr CJ.Props.C06Split

/-! ## the hypotheses of `contains_iff_prefix` are satisfiable -/

/-- 2001:db8::/32 -/
def exNet : IPNet := ⟨[0x20, 0x01, 0x0d, 0xb8, 0, 0, 0, 0, 0, 0, 0, 0, 0, 0, 0, 0], cidrMask 32 16⟩
/-- 2001:db8:1::7 -/
def exIn : List Nat := [0x20, 0x01, 0x0d, 0xb8, 0, 1, 0, 0, 0, 0, 0, 0, 0, 0, 0, 7]
/-- 2001:db9::7 -/
def exOut : List Nat := [0x20, 0x01, 0x0d, 0xb9, 0, 0, 0, 0, 0, 0, 0, 0, 0, 0, 0, 7]

example : contains exNet exIn = true ↔ prefixAgree 32 exNet.ip exIn :=
  contains_iff_prefix exNet 32 exIn (by decide) rfl (by decide) (by decide) (by decide) (by decide) (by decide)

example : contains exNet exOut = true ↔ prefixAgree 32 exNet.ip exOut :=
  contains_iff_prefix exNet 32 exOut (by decide) rfl (by decide) (by decide) (by decide) (by decide) (by decide)

example : contains exNet exIn = true := by decide
example : contains exNet exOut = false := by decide

/-! ## big-endian value -/

/-- the big-endian number of a byte list -/
def be : List Nat → Nat
  | [] => 0
  | a :: as => a * 256 ^ as.length + be as

theorem be_lt : ∀ (l : List Nat), (∀ x ∈ l, x < 256) → be l < 256 ^ l.length
  | [], _ => by simp [be]
  | a :: as, h => by
    have ha : a < 256 := h a (List.mem_cons_self ..)
    have ih := be_lt as (fun z hz => h z (List.mem_cons_of_mem _ hz))
    simp only [be, List.length_cons, Nat.pow_succ]
    have h1 : (a + 1) * 256 ^ as.length ≤ 256 * 256 ^ as.length := Nat.mul_le_mul_right _ (by omega)
    rw [Nat.add_mul, Nat.one_mul] at h1
    rw [Nat.mul_comm (256 ^ as.length) 256]
    omega

theorem mul_add_inj (K a b u v : Nat) (hu : u < K) (hv : v < K) :
    a * K + u = b * K + v ↔ a = b ∧ u = v := by
  constructor
  · intro h
    have hK : 0 < K := by omega
    have d : (a * K + u) / K = (b * K + v) / K := by rw [h]
    have m : (a * K + u) % K = (b * K + v) % K := by rw [h]
    rw [Nat.mul_comm a K, Nat.mul_comm b K, Nat.mul_add_div hK, Nat.mul_add_div hK,
      Nat.div_eq_of_lt hu, Nat.div_eq_of_lt hv] at d
    rw [Nat.mul_comm a K, Nat.mul_comm b K, Nat.mul_add_mod, Nat.mul_add_mod,
      Nat.mod_eq_of_lt hu, Nat.mod_eq_of_lt hv] at m
    exact ⟨by omega, m⟩
  · rintro ⟨rfl, rfl⟩; rfl

theorem pow256 (n : Nat) : 256 ^ n = 2 ^ (8 * n) := by rw [Nat.pow_mul]

/-- a shift that stays inside the tail -/
theorem shift_hi (a X n s : Nat) (hs : s ≤ 8 * n) :
    (a * 256 ^ n + X) / 2 ^ s = a * 2 ^ (8 * n - s) + X / 2 ^ s := by
  have e : 256 ^ n = 2 ^ s * 2 ^ (8 * n - s) := by
    rw [pow256, ← Nat.pow_add]; congr 1; omega
  rw [e, Nat.mul_left_comm, Nat.mul_add_div (Nat.pow_pos (by decide))]

/-- a shift that swallows the whole tail and `j` bits of the head byte -/
theorem shift_lo (a X n j : Nat) (hX : X < 256 ^ n) :
    (a * 256 ^ n + X) / 2 ^ (8 * n + j) = a / 2 ^ j := by
  rw [Nat.pow_add, ← Nat.div_div_eq_div_mul, ← pow256, Nat.mul_comm a,
    Nat.mul_add_div (Nat.pow_pos (by decide)), Nat.div_eq_of_lt hX, Nat.add_zero]

/-- agreement on the first `ones` bits = equality of the numbers shifted right by the remaining bits -/
theorem prefix_iff_div : ∀ (ones : Nat) (a b : List Nat), a.length = b.length →
    (∀ x ∈ a, x < 256) → (∀ x ∈ b, x < 256) → ones ≤ 8 * a.length →
    (prefixAgree ones a b ↔ be a / 2 ^ (8 * a.length - ones) = be b / 2 ^ (8 * a.length - ones))
  | ones, [], [], _, _, _, _ => by simp [prefixAgree, be]
  | ones, x :: xs, y :: ys, hl, ha, hb, ho => by
    have hl' : xs.length = ys.length := by simpa using hl
    have hxs : ∀ z ∈ xs, z < 256 := fun z hz => ha z (List.mem_cons_of_mem _ hz)
    have hys : ∀ z ∈ ys, z < 256 := fun z hz => hb z (List.mem_cons_of_mem _ hz)
    have X := be_lt xs hxs
    have Y := be_lt ys hys
    rw [← hl'] at Y
    simp only [List.length_cons] at ho ⊢
    simp only [prefixAgree, be]
    rw [← hl']
    by_cases h8 : ones ≥ 8
    · have ih := prefix_iff_div (ones - 8) xs ys hl' hxs hys (by omega)
      have es : 8 * xs.length - (ones - 8) = 8 * (xs.length + 1) - ones := by omega
      rw [es] at ih
      have hs : 8 * (xs.length + 1) - ones ≤ 8 * xs.length := by omega
      have bound : ∀ Z, Z < 256 ^ xs.length →
          Z / 2 ^ (8 * (xs.length + 1) - ones) < 2 ^ (8 * xs.length - (8 * (xs.length + 1) - ones)) := by
        intro Z hZ
        rw [Nat.div_lt_iff_lt_mul (Nat.pow_pos (by decide)), ← Nat.pow_add,
          show 8 * xs.length - (8 * (xs.length + 1) - ones) + (8 * (xs.length + 1) - ones) = 8 * xs.length by omega,
          ← pow256]
        exact hZ
      rw [if_pos h8, ih, shift_hi _ _ _ _ hs, shift_hi _ _ _ _ hs]
      exact (mul_add_inj _ _ _ _ _ (bound _ X) (bound _ Y)).symm
    · have pz := prefixAgree_zero xs ys hl' hxs hys
      have e0 : ones - 8 = 0 := by omega
      have es : 8 * (xs.length + 1) - ones = 8 * xs.length + (8 - ones) := by omega
      rw [if_neg h8, e0, es, shift_lo _ _ _ _ X, shift_lo _ _ _ _ Y]
      exact ⟨fun h => h.1, fun h => ⟨h, pz⟩⟩
  | _, [], _ :: _, hl, _, _, _ => by simp at hl
  | _, _ :: _, [], hl, _, _, _ => by simp at hl

/-- `(*IPNet).Contains` of a 16-byte `/ones` network on 16-byte non-mapped addresses: the two 128-bit numbers are
equal after dropping the `128 - ones` host bits -/
theorem contains_iff_prefix_div (n : IPNet) (ones : Nat) (ip : List Nat)
    (hl : n.ip.length = 16) (hm : n.mask = cidrMask ones 16) (h4 : to4 n.ip = none)
    (hil : ip.length = 16) (hi4 : to4 ip = none)
    (hn : ∀ x ∈ n.ip, x < 256) (hi : ∀ x ∈ ip, x < 256) (ho : ones ≤ 128) :
    contains n ip = true ↔ be n.ip / 2 ^ (128 - ones) = be ip / 2 ^ (128 - ones) := by
  have h := prefix_iff_div ones n.ip ip (by rw [hl, hil]) hn hi (by rw [hl]; exact ho)
  rw [hl] at h
  rw [contains_iff_prefix n ones ip hl hm h4 hil hi4 hn hi]
  exact h

example : be exNet.ip / 2 ^ (128 - 32) = be exIn / 2 ^ (128 - 32) := by decide
example : be exNet.ip / 2 ^ (128 - 32) ≠ be exOut / 2 ^ (128 - 32) := by decide

/-! ## `IP.String()` never contains a bracket, so `JoinHostPort`/`SplitHostPort` round-trip on it -/

def okc (c : Char) : Bool := c != '[' && c != ']'

theorem hexDigit_ok (k : Nat) (hk : k < 16) : okc (hexDigit k) = true := by
  have : ∀ k : Fin 16, okc (hexDigit k.val) = true := by decide
  exact this ⟨k, hk⟩

theorem digitChar_ok (k : Nat) (hk : k < 10) : okc (digitChar k) = true := by
  have : ∀ k : Fin 10, okc (digitChar k.val) = true := by decide
  exact this ⟨k, hk⟩

theorem fmtHex_ok (h : Nat) (hh : h < 65536) : (fmtHex h).all okc = true := by
  unfold fmtHex
  repeat' split
  all_goals simp only [List.all_cons, List.all_nil, Bool.and_true, Bool.and_eq_true]
  all_goals repeat' apply And.intro
  all_goals (apply hexDigit_ok; omega)

theorem fmtOctet_ok (b : Nat) (hb : b < 256) : (fmtOctet b).all okc = true := by
  unfold fmtOctet
  repeat' split
  all_goals simp only [List.all_cons, List.all_nil, Bool.and_true, Bool.and_eq_true]
  all_goals repeat' apply And.intro
  all_goals (apply digitChar_ok; omega)

theorem intercalate_ok (sep : Char) (hs : okc sep = true) :
    ∀ l : List Str, (∀ x ∈ l, x.all okc = true) → (intercalate sep l).all okc = true
  | [], _ => rfl
  | [x], h => by rw [intercalate]; exact h x (by simp)
  | x :: y :: rest, h => by
    rw [intercalate, List.all_append, List.all_cons, h x (by simp), hs,
      intercalate_ok sep hs (y :: rest) (fun z hz => h z (List.mem_cons_of_mem _ hz))]
    rfl

theorem groups_lt : ∀ l : List Nat, (∀ x ∈ l, x < 256) → ∀ g ∈ groups l, g < 65536
  | [], _, g, hg => by simp [groups] at hg
  | [_], _, g, hg => by simp [groups] at hg
  | a :: b :: rest, h, g, hg => by
    rw [groups] at hg
    rcases List.mem_cons.1 hg with e | e
    · have := h a (by simp); have := h b (by simp); omega
    · exact groups_lt rest (fun z hz => h z (by simp [hz])) g e

theorem fmtIPv4_ok (b : List Nat) (hb : ∀ x ∈ b, x < 256) : (fmtIPv4 b).all okc = true := by
  unfold fmtIPv4
  apply intercalate_ok '.' (by decide)
  intro x hx
  rcases List.mem_map.1 hx with ⟨o, ho, rfl⟩
  exact fmtOctet_ok o (hb o ho)

theorem hexmap_ok (hs : List Nat) (h : ∀ g ∈ hs, g < 65536) :
    (intercalate ':' (hs.map fmtHex)).all okc = true := by
  apply intercalate_ok ':' (by decide)
  intro x hx
  rcases List.mem_map.1 hx with ⟨o, ho, rfl⟩
  exact fmtHex_ok o (h o ho)

theorem fmtIPv6_ok (ip : List Nat) (hb : ∀ x ∈ ip, x < 256) : (fmtIPv6 ip).all okc = true := by
  have G := groups_lt ip hb
  unfold fmtIPv6
  simp only
  split
  · exact hexmap_ok _ G
  · rw [List.all_append, List.all_append,
      hexmap_ok _ (fun g hg => G g (List.mem_of_mem_take hg)),
      hexmap_ok _ (fun g hg => G g (List.mem_of_mem_drop hg))]
    rfl

theorem nb_of_all {s : Str} (h : s.all okc = true) : '[' ∉ s ∧ ']' ∉ s := by
  rw [List.all_eq_true] at h
  constructor <;> intro m
  · exact absurd (h _ m) (by decide)
  · exact absurd (h _ m) (by decide)

theorem to4_lt (ip b : List Nat) (hb : ∀ x ∈ ip, x < 256) (h : to4 ip = some b) : ∀ x ∈ b, x < 256 := by
  unfold to4 at h
  split at h
  · cases h; exact hb
  · split at h
    · cases h; exact fun x hx => hb x (List.mem_of_mem_drop hx)
    · cases h

/-- the text of `IP.String()` (of an address whose bytes are bytes) has no bracket -/
theorem ipString_no_brackets (ip : List Nat) (s : Str) (hb : ∀ x ∈ ip, x < 256)
    (h : ipString ip = some s) : '[' ∉ s ∧ ']' ∉ s := by
  apply nb_of_all
  unfold ipString at h
  split at h
  · rename_i b hb4
    cases h
    exact fmtIPv4_ok b (to4_lt ip b hb hb4)
  · split at h
    · cases h; exact fmtIPv6_ok ip hb
    · cases h

/-- `SplitHostPort(JoinHostPort(ip.String(), port))` gives the two back, for every port text without
colon or bracket -/
theorem split_join_literal (ip : List Nat) (s p : Str) (hb : ∀ x ∈ ip, x < 256)
    (h : ipString ip = some s) (p1 : ':' ∉ p) (p2 : '[' ∉ p) (p3 : ']' ∉ p) :
    splitHostPort (joinHostPort s p) = some (s, p) :=
  split_join s p (ipString_no_brackets ip s hb h).1 (ipString_no_brackets ip s hb h).2 p1 p2 p3

example : ipString exIn = some "2001:db8:1::7".toList := by decide

end CJ.Props.C06Prefix
