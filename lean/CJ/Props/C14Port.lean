import CJ.Props.C14
import CJ.Model.PhantomPort
import CJ.Model.Port
/-!
# C14 — "destination-port randomisation is granted only if that subnet allows it", decided where the
station decides it

`CJ.Props.C14.randomise_only_if_subnet_allows` is about the flag the selector puts on its result.
The station turns that flag into a port in `getPhantomDstPort` (registration_ingest.go), called by
`NewRegistration` with `phantomAddr.SupportRandomPort()`.  The theorems below are about that function
and that data flow, for **every** transport (the transport's `GetDstPort` is universally quantified:
any function of library version, seed and parameter object of any type), and, through `CJ.Port`, for
every constructor of the four existing transports' parameter types.
-/
namespace CJ.Props.C14Port
open CJ.Phantom CJ.PhantomPort

/-- **Without the subnet's permission the port is 443** — whatever the registered transport would
answer for these parameters (a randomised port, its own default, an error), for every library
version; the only other outcome is the "unknown transport" error. -/
theorem dstport_443_unless_subnet_allows (minVer : Nat) (tp : Option TOut) (ver : Nat) :
    getPhantomDstPort minVer tp ver false = .port 443 ∨
      (tp = none ∧ getPhantomDstPort minVer tp ver false = .unknownTransport) := by
  cases tp with
  | none => exact .inr ⟨rfl, rfl⟩
  | some a => left; simp [getPhantomDstPort]

/-- the transport is not consulted: two transports (or two parameter objects, or two seeds) that
answer differently give the same port when the subnet does not allow randomisation -/
theorem dstport_ignores_transport_without_permission (minVer ver : Nat) (a b : TOut) :
    getPhantomDstPort minVer (some a) ver false = getPhantomDstPort minVer (some b) ver false := by
  simp [getPhantomDstPort]

/-- clients older than `randomizeDstPortMinVersion` get 443 from every registered transport -/
theorem dstport_old_clients_443 (minVer ver : Nat) (a : TOut) (sr : Bool) (h : ver < minVer) :
    getPhantomDstPort minVer (some a) ver sr = .port 443 := by
  simp [getPhantomDstPort, h]

/-- with the subnet's permission and a current client the transport's answer is passed on unchanged -/
theorem dstport_passes_transport (minVer ver : Nat) (a : TOut) (h : minVer ≤ ver) :
    getPhantomDstPort minVer (some a) ver true =
      (match a with | .port p => .port p | .err => .transportErr) := by
  have : ¬ ver < minVer := by omega
  cases a <;> simp [getPhantomDstPort, this]

/-- a port other than 443 needs all three: a registered transport that answered it, a current client,
and the flag -/
theorem dstport_other_port_needs_flag (minVer : Nat) (tp : Option TOut) (ver : Nat) (sr : Bool) (p : Nat)
    (h : getPhantomDstPort minVer tp ver sr = .port p) (hp : p ≠ 443) :
    sr = true ∧ minVer ≤ ver ∧ tp = some (.port p) := by
  cases tp with
  | none => simp [getPhantomDstPort] at h
  | some a =>
    unfold getPhantomDstPort at h
    simp only at h
    split at h
    · cases h; exact absurd rfl hp
    · rename_i hc
      have hsr : sr = true := by cases sr <;> simp_all
      refine ⟨hsr, by omega, ?_⟩
      cases a with
      | port q => simp at h; rw [h]
      | err => simp at h

/-- `NewRegistration` as a function of its inputs, the HKDF streams, the generator, and the transport's answer -/
def register (R : Rng) (g : R.G) (h : Hk) (cfg : Cfg) (minVer : Nat) (tp : Option TOut) (seed : Bytes)
    (gen ver : Nat) (v6 : Bool) : RegOut :=
  ((newRegistration h cfg minVer tp seed gen ver v6).run R g).1

theorem register_eq (R : Rng) (g : R.G) (h : Hk) (cfg : Cfg) (minVer : Nat) (tp : Option TOut) (seed : Bytes)
    (gen ver : Nat) (v6 : Bool) :
    register R g h cfg minVer tp seed gen ver v6 =
      finishRegistration minVer tp ver (C14.select R g h cfg seed gen ver v6) := by
  unfold register newRegistration C14.select
  rw [Prog.bind_eq, Prog.run_bind]
  rfl

/-- **The clause, end to end.**  A registration whose destination port is not 443 has its phantom
inside a configured subnet of a set whose `RandomizeDstPort` is set — for every seed, generation,
library version, family, configuration, math/rand implementation, HKDF stream, and every transport
and parameter object. -/
theorem registration_port_only_if_subnet_allows (R : Rng) (g : R.G) (h : Hk) (cfg : Cfg) (minVer : Nat)
    (tp : Option TOut) (seed : Bytes) (gen ver : Nat) (v6 : Bool) (r : Reg)
    (hok : register R g h cfg minVer tp seed gen ver v6 = .ok r) (hp : r.port ≠ 443) :
    ∃ gc, cfg.lookup gen = some gc ∧ ∃ grp ∈ gc.groups, grp.randPort = true ∧ ∃ rn : RawNet, some rn ∈ grp.nets ∧
      rn.base ≤ beNat r.addr.bytes ∧ beNat r.addr.bytes < rn.base + 2 ^ (rn.bits - rn.ones) := by
  rw [register_eq] at hok
  generalize hs : C14.select R g h cfg seed gen ver v6 = o at hok
  cases o with
  | ok a =>
    simp only [finishRegistration] at hok
    generalize hq : getPhantomDstPort minVer tp ver a.randPort = q at hok
    cases q with
    | port p =>
      simp only [RegOut.ok.injEq] at hok
      subst hok
      have := dstport_other_port_needs_flag minVer tp ver a.randPort p hq hp
      exact C14.randomise_only_if_subnet_allows R g h cfg seed gen ver v6 a hs this.1
    | unknownTransport => simp at hok
    | transportErr => simp at hok
  | err e => simp [finishRegistration] at hok
  | panic w => simp [finishRegistration] at hok

/-- the registration keeps the selector's address (so containment carries over) -/
theorem registration_addr_is_selected (R : Rng) (g : R.G) (h : Hk) (cfg : Cfg) (minVer : Nat)
    (tp : Option TOut) (seed : Bytes) (gen ver : Nat) (v6 : Bool) (r : Reg)
    (hok : register R g h cfg minVer tp seed gen ver v6 = .ok r) :
    C14.select R g h cfg seed gen ver v6 = .ok r.addr := by
  rw [register_eq] at hok
  generalize C14.select R g h cfg seed gen ver v6 = o at hok
  cases o with
  | ok a =>
    simp only [finishRegistration] at hok
    split at hok <;> simp at hok
    rw [← hok]
  | err e => simp [finishRegistration] at hok
  | panic w => simp [finishRegistration] at hok

/-- registration is as pure as selection: the generator state at the start is irrelevant -/
theorem registration_pure (R : Rng) (g g' : R.G) (h : Hk) (cfg : Cfg) (minVer : Nat) (tp : Option TOut)
    (seed : Bytes) (gen ver : Nat) (v6 : Bool) :
    register R g h cfg minVer tp seed gen ver v6 = register R g' h cfg minVer tp seed gen ver v6 := by
  rw [register_eq, register_eq, C14.select_pure R g g']

/-! ## every existing transport and parameter type (`CJ.Port`, the model C01 corresponds) -/

def ofPOut : CJ.Port.POut Nat → Option PortOut
  | .ok p => some (.port p)
  | .err .unknownTransport => some .unknownTransport
  | .err _ => some .transportErr
  | .panic _ => none

/-- what the registered transport answers, in the vocabulary of this model -/
def tpOf (c : CJ.Port.Consts) (s : Stream) (lim : Nat) (t : CJ.Port.Transport) (ver : Nat) (p : CJ.Port.Params) :
    Option TOut :=
  if t = .unknown then none else
  match CJ.Port.transportDstPort c s lim t ver p with
  | .ok q => some (.port q)
  | _ => some .err

theorem portSelectorRange_ne_err (s : Stream) (lim mn mx : Nat) (e : CJ.Port.PErr) :
    CJ.Port.portSelectorRange s lim mn mx ≠ .err e := by
  unfold CJ.Port.portSelectorRange; split <;> simp

/-- a registered transport never answers "unknown transport" itself -/
theorem transportDstPort_ne_unknown (c : CJ.Port.Consts) (s : Stream) (lim : Nat) (t : CJ.Port.Transport)
    (ver : Nat) (p : CJ.Port.Params) (ht : t ≠ .unknown) :
    CJ.Port.transportDstPort c s lim t ver p ≠ .err .unknownTransport := by
  intro hq
  cases t <;> first
    | exact ht rfl
    | (simp only [CJ.Port.transportDstPort] at hq
       repeat' split at hq
       all_goals first
         | exact portSelectorRange_ne_err _ _ _ _ _ hq
         | simp at hq)

/-- **Refinement**: the per-transport model of C01 (`CJ.Port.getPhantomDstPort`, whose `transportDstPort`
spells out min / obfs4 / prefix / DTLS and their parameter types) is this model with the transport's
answer plugged in, whenever the transport does not panic. -/
theorem port_model_refines (c : CJ.Port.Consts) (s : Stream) (lim : Nat) (t : CJ.Port.Transport)
    (p : CJ.Port.Params) (ver : Nat) (sr : Bool)
    (hnp : ∀ w, CJ.Port.transportDstPort c s lim t ver p ≠ .panic w) :
    ofPOut (CJ.Port.getPhantomDstPort c s lim t p ver sr) =
      some (getPhantomDstPort c.randomizeMinVersion (tpOf c s lim t ver p) ver sr) := by
  unfold CJ.Port.getPhantomDstPort tpOf
  by_cases ht : t = .unknown
  · simp [ht, ofPOut, getPhantomDstPort]
  · simp only [if_neg ht]
    by_cases hc : ver < c.randomizeMinVersion ∨ sr = false
    · simp only [if_pos hc]
      cases hq : CJ.Port.transportDstPort c s lim t ver p <;> simp [ofPOut, getPhantomDstPort, hc]
    · simp only [if_neg hc]
      cases hq : CJ.Port.transportDstPort c s lim t ver p with
      | ok q => simp [ofPOut, getPhantomDstPort, hc]
      | err e =>
        have : e ≠ .unknownTransport := by
          intro he; subst he
          exact transportDstPort_ne_unknown c s lim t ver p ht hq
        cases e <;> simp_all [ofPOut, getPhantomDstPort]
      | panic w => exact absurd hq (hnp w)

/-- **Every transport, every parameter type**: min, obfs4, prefix (every prefix id), DTLS, an
unregistered type; absent parameters, generic / prefix / DTLS parameters with the randomise request on
or off, and parameters of the wrong type for the transport — without the subnet's permission the
station's port is 443 (or the registration is refused as "unknown transport"). -/
theorem dstport_443_every_params (c : CJ.Port.Consts) (s : Stream) (lim : Nat) (t : CJ.Port.Transport)
    (p : CJ.Port.Params) (ver : Nat) :
    CJ.Port.getPhantomDstPort c s lim t p ver false = .ok 443 ∨
      (t = .unknown ∧ CJ.Port.getPhantomDstPort c s lim t p ver false = .err .unknownTransport) := by
  unfold CJ.Port.getPhantomDstPort
  by_cases ht : t = .unknown
  · exact .inr ⟨ht, by simp [ht]⟩
  · left; simp [ht]

/-! ## the hypotheses are satisfiable, the conclusions are not vacuous -/

example : getPhantomDstPort 3 (some (.port 51234)) 4 true = .port 51234 := by decide
example : getPhantomDstPort 3 (some (.port 51234)) 4 false = .port 443 := by decide
example : getPhantomDstPort 3 (some (.port 51234)) 2 true = .port 443 := by decide
example : getPhantomDstPort 3 (some .err) 4 false = .port 443 := by decide
example : getPhantomDstPort 3 none 4 false = .unknownTransport := by decide

/-- a registration with a randomised port exists (so `registration_port_only_if_subnet_allows` has instances) -/
example : register C14.toyRng C14.toy0 C14.zeroHk C14.cfg0 3 (some (.port 2000)) [7] 1 4 false =
    .ok ⟨⟨[10, 1, 0, 0], true⟩, 2000⟩ := by decide

end CJ.Props.C14Port
