import CJ.Lemmas.Announce
import CJ.Lemmas.AnnounceStation
import CJ.Props.C10
/-!
# C10 over time — the detector's session table covers what the station accepts, along every history

`CJ.Props.C10` is about single messages.  The clause "the lifetime it requests is the station's own
lifetime for that state, *so the detector forwards a session for as long as the station would accept
it*" is a relation between two tables that evolve: the station's registry (`CJ.Registry`: who is
tracked, valid, used, since when; expiry by `isExpired`) and the detector's session map
(`CJ.Detector`: insert / extend on `New` and `Update`, `drop_stale_sessions`).  `CJ.Announce` runs them
side by side over a history of registrations, duplicates, validations, connections (`MarkActive`, also
on registrations that were removed or never tracked), station sweeps and detector sweeps, with the
closure calls placed where the code places them.

Constants are those of the tree under test (`CJ.Gen.C10`): the station's two thresholds and the
lifetime / operation each closure publishes.
-/
namespace CJ.Props.C10
open CJ.Detector CJ.Announce

/-- `RegisteredDecoys` of the tree under test: its two thresholds (ns), any set of enabled transports -/
def stationCfg (enabled : List Nat) : CJ.Registry.Cfg :=
  { unusedT := CJ.Gen.C10.stationUnusedNs, activeT := CJ.Gen.C10.stationActiveNs, enabled := enabled }

/-- the closures of the tree under test: `registerForDetector` / `updateInDetector` as observed -/
def codeParams (regOf : CJ.Registry.Key → Reg) : Params :=
  { regOf := regOf
    newNs := CJ.Gen.C10.announcedNewNs, newOp := CJ.Gen.C10.announcedNewOp
    updNs := CJ.Gen.C10.announcedUpdateNs, updOp := CJ.Gen.C10.announcedUpdateOp }

theorem codeParams_msg (regOf : CJ.Registry.Key → Reg) (k : CJ.Registry.Key) :
    (codeParams regOf).msg k .new = announce (regOf k) .fresh ∧
    (codeParams regOf).msg k .upd = announce (regOf k) .used := ⟨rfl, rfl⟩

/-- the session an announceable registration is filed under by the detector (lifetime aside) -/
def sessionOf (r : Reg) (timeout : Nat) : Option Session :=
  match ipOf r.phantom, ipOf r.registrant with
  | some ph, some cl =>
    some { client := cl, phantom := ph, dstPort := r.port, srcPort := 0, proto := nextHeader r.proto, timeout := timeout }
  | _, _ => none

/-- key of the detector's map under which the registration's session is stored -/
def keyOf (r : Reg) : Key :=
  match sessionOf r 0 with
  | some s => .tag (tagOf s)
  | none => .ext "not announceable"

/-- the lifetimes the closures request reach the station's thresholds (they are equal: `timeouts_match`) -/
theorem requested_lifetimes_reach :
    min CJ.Gen.C10.stationUnusedNs CJ.Gen.C10.stationActiveNs ≤ CJ.Gen.C10.announcedNewNs ∧
    CJ.Gen.C10.stationActiveNs ≤ CJ.Gen.C10.announcedUpdateNs := by decide

/-- the closures of the tree under test are adequate for the station's thresholds: each message is
filed by the detector under the registration's key with the requested lifetime, `New` requests at least
the unused lifetime and `Update` at least the active one (they are equal: `timeouts_match`) -/
theorem code_adequate (regOf : CJ.Registry.Key → Reg) (hA : ∀ k, Announceable (regOf k)) (enabled : List Nat) :
    Adequate (codeParams regOf) (stationCfg enabled) (fun k => keyOf (regOf k)) := by
  refine ⟨?_, requested_lifetimes_reach.1, requested_lifetimes_reach.2⟩
  intro k kind
  have hops := announced_operations
  cases kind with
  | new =>
    obtain ⟨ph, cl, hph, hcl, hd⟩ := announce_accepted (regOf k) (hA k) CJ.Gen.C10.announcedNewNs
      CJ.Gen.C10.announcedNewOp (Or.inl hops.1)
    refine ⟨_, hd, ?_, rfl⟩
    simp only [keyOf, sessionOf, hph, hcl]; rfl
  | upd =>
    obtain ⟨ph, cl, hph, hcl, hd⟩ := announce_accepted (regOf k) (hA k) CJ.Gen.C10.announcedUpdateNs
      CJ.Gen.C10.announcedUpdateOp (Or.inr hops.2)
    refine ⟨_, hd, ?_, rfl⟩
    simp only [keyOf, sessionOf, hph, hcl]; rfl

/-- **Along every history the detector forwards what the station accepts.**  Take any sequence, of any
length, of registrations (`ingest`, passing or failing validation), duplicates, direct `track` /
`register` calls, connections (`markActive` on any key: tracked, swept or never tracked), station sweeps
and detector sweeps, at clock values that never run backwards, starting from an empty registry and any
detector map.  Afterwards, for every registration the station tracks as valid and at every later instant
`now` at which its record is still inside the station's own lifetime (`accepts`: used, or younger than
the unused threshold; and younger than the active threshold — counted from the record's own start), the
detector's table, even after a `drop_stale_sessions` at `now`, answers *yes* to `is_tracked_session` for
the flow the client sends (to the phantom and port, with the transport's protocol, from the registrant
when the phantom is IPv4). -/
theorem history_forwarded_while_accepted (regOf : CJ.Registry.Key → Reg) (hA : ∀ k, Announceable (regOf k))
    (enabled : List Nat) (ops : List HOp) (hm : Mono 0 ops) (det0 : Map)
    (k : CJ.Registry.Key) (r : CJ.Registry.Reg) (t : CJ.Registry.TO)
    (hd : (Announce.run (codeParams regOf) (stationCfg enabled) ops { reg := {}, det := det0 }).reg.decoys[k]? = some r)
    (ht : (Announce.run (codeParams regOf) (stationCfg enabled) ops { reg := {}, det := det0 }).reg.timeouts[k]? = some t)
    (hv : r.valid = true) (now : Nat) (hnow : endTime 0 ops ≤ now) (hacc : accepts (stationCfg enabled) now t) :
    ∃ ph cl, ipOf (regOf k).phantom = some ph ∧ ipOf (regOf k).registrant = some cl ∧
      ∀ src, (ph.isV4 = true → src = cl) →
        isTracked (dropStale now (Announce.run (codeParams regOf) (stationCfg enabled) ops { reg := {}, det := det0 }).det)
          { src := src, dst := ph, dstPort := (regOf k).port, proto := nextHeader (regOf k).proto } = true := by
  have hg := good_run (codeParams regOf) (stationCfg enabled) (fun k => keyOf (regOf k))
    (code_adequate regOf hA enabled) ops { reg := {}, det := det0 } 0 hm (good_init _ _ det0 0)
  have hb := accepts_lt_bound _ now t hacc
  obtain ⟨v, hv1, hv2⟩ := hg.cov k r t hd ht (Or.inl hv) (by omega)
  obtain ⟨ph, cl, hph, hcl, _⟩ := announce_accepted (regOf k) (hA k) 0 opNew (Or.inl rfl)
  refine ⟨ph, cl, hph, hcl, ?_⟩
  intro src hsrc
  let s : Session := { client := cl, phantom := ph, dstPort := (regOf k).port, srcPort := 0,
                       proto := nextHeader (regOf k).proto, timeout := 0 }
  have htag : flowTag { src := src, dst := ph, dstPort := (regOf k).port, proto := nextHeader (regOf k).proto } = tagOf s :=
    flowTag_eq_tagOf s _ rfl rfl rfl hsrc
  have hkey : keyOf (regOf k) = .tag (tagOf s) := by
    simp only [keyOf, sessionOf, hph, hcl]; rfl
  unfold isTracked
  rw [htag, ← hkey, get?_dropStale now _ _ v hv1 (by omega)]
  rfl

/-- the registry of a history is consistent (both maps describe the same registrations) -/
theorem history_inv (P : Params) (c : CJ.Registry.Cfg) (ops : List HOp) (y : Sys) (h : CJ.Registry.Inv y.reg) :
    CJ.Registry.Inv (Announce.run P c ops y).reg := by
  induction ops generalizing y with
  | nil => exact h
  | cons o os ih =>
    simp only [Announce.run, List.foldl_cons]
    exact ih _ (inv_regStep c y.reg o h)

/-- **Every announcement is about a registration the station tracks at that moment.**  After any
history, whatever event comes next: if it makes a closure call for key `k`, then `k` is tracked in the
state the event leaves — a `New` for a registration that was not valid before and is valid now, an
`Update` for a registration whose timeout record existed before the call (same start of lifetime) and is
marked used now.  So no message is published for a registration the sweeper has removed or that was
never tracked, and none twice for one validation. -/
theorem announced_only_for_tracked (P : Params) (c : CJ.Registry.Cfg) (ops : List HOp) (op : HOp)
    (k : CJ.Registry.Key) (kind : Kind)
    (h : emitted op (step P c (Announce.run P c ops) op).2 = some (k, kind)) :
    ∃ r t, (step P c (Announce.run P c ops) op).1.reg.decoys[k]? = some r ∧
      (step P c (Announce.run P c ops) op).1.reg.timeouts[k]? = some t ∧
      (kind = .new → r.valid = true ∧ ∀ r0, (Announce.run P c ops).reg.decoys[k]? = some r0 → r0.valid = false) ∧
      (kind = .upd → t.used = true ∧ ∃ t0, (Announce.run P c ops).reg.timeouts[k]? = some t0 ∧ t.time = t0.time) :=
  emitted_tracked c (Announce.run P c ops).reg (history_inv P c ops {} CJ.Registry.inv_init) op k kind h

/-- **Conversely, whatever is not announced changes no promised lifetime**: after any history, an event
that makes no closure call leaves every valid (or used) registration with the timeout record it had — no
silent renewal (a duplicate registration does not restart the waiting period), no silent validation, no
silent activation.  Together with `history_forwarded_while_accepted` this is why the detector, which only
sees the announcements, can follow the station's table. -/
theorem silent_operations_change_no_lifetime (regOf : CJ.Registry.Key → Reg) (enabled : List Nat)
    (ops : List HOp) (hm : Mono 0 ops) (op : HOp) (hl : endTime 0 ops ≤ op.time)
    (hs : emitted op (step (codeParams regOf) (stationCfg enabled) (Announce.run (codeParams regOf) (stationCfg enabled) ops) op).2 = none)
    (k : CJ.Registry.Key) (r' : CJ.Registry.Reg) (t' : CJ.Registry.TO)
    (hd : (step (codeParams regOf) (stationCfg enabled) (Announce.run (codeParams regOf) (stationCfg enabled) ops) op).1.reg.decoys[k]? = some r')
    (ht : (step (codeParams regOf) (stationCfg enabled) (Announce.run (codeParams regOf) (stationCfg enabled) ops) op).1.reg.timeouts[k]? = some t')
    (hv : r'.valid = true ∨ t'.used = true) :
    ∃ r, (Announce.run (codeParams regOf) (stationCfg enabled) ops).reg.decoys[k]? = some r ∧
      (Announce.run (codeParams regOf) (stationCfg enabled) ops).reg.timeouts[k]? = some t' ∧
      (r.valid = true ∨ t'.used = true) := by
  have hpast : ∀ (k : CJ.Registry.Key) (t : CJ.Registry.TO),
      (Announce.run (codeParams regOf) (stationCfg enabled) ops).reg.timeouts[k]? = some t → t.time ≤ op.time := by
    -- record stamps lie in the past: the `past` half of the invariant needs no adequacy of the messages
    have hp : ∀ (ops : List HOp) (y : Sys) (last : Nat), Mono last ops → CJ.Registry.Inv y.reg →
        (∀ (k : CJ.Registry.Key) (t : CJ.Registry.TO), y.reg.timeouts[k]? = some t → t.time ≤ last) →
        ∀ (k : CJ.Registry.Key) (t : CJ.Registry.TO),
          (Announce.run (codeParams regOf) (stationCfg enabled) ops y).reg.timeouts[k]? = some t → t.time ≤ endTime last ops := by
      intro ops
      induction ops with
      | nil => intro y last _ _ h; exact h
      | cons o os ih =>
        intro y last hm hi h
        obtain ⟨h1, h2⟩ := hm
        simp only [Announce.run, List.foldl_cons, endTime]
        refine ih _ o.time h2 (inv_regStep _ y.reg o hi) ?_
        exact (trans_regStep (codeParams regOf) (stationCfg enabled) requested_lifetimes_reach.1 requested_lifetimes_reach.2 y.reg hi o).past
          (fun k t hk => Nat.le_trans (h k t hk) h1)
    intro k t hk
    exact Nat.le_trans (hp ops {} 0 hm CJ.Registry.inv_init (by intro k t h; simp at h) k t hk) hl
  exact silent_keeps_lifetimes (codeParams regOf) (stationCfg enabled) requested_lifetimes_reach.1 requested_lifetimes_reach.2 _
    (history_inv _ _ ops {} CJ.Registry.inv_init) op hs hpast k r' t' hd ht hv

/-- a connection reported for a registration that has no timeout record (swept, or never tracked) tells
the detector nothing and changes nothing -/
theorem untracked_markActive_silent (P : Params) (c : CJ.Registry.Cfg) (y : Sys) (k : CJ.Registry.Key) (tr now : Nat)
    (h : y.reg.timeouts[k]? = none) :
    (step P c y (.markActive k tr now)).2 = .none ∧ (step P c y (.markActive k tr now)).1.det = y.det := by
  have ho : (CJ.Registry.markActive c y.reg k tr).2 = .none := by
    rw [markActive_out, h]; simp
  simp only [step, detStep, regStep, ho, emitted, announceTo, and_self]

/-- a duplicate of a tracked registration tells the detector nothing and leaves the timeout record —
the start of the lifetime and the used flag — exactly as it was -/
theorem duplicate_does_not_renew (P : Params) (c : CJ.Registry.Cfg) (y : Sys) (k : CJ.Registry.Key) (tr now : Nat) (p : Bool)
    (r : CJ.Registry.Reg) (h : y.reg.decoys[k]? = some r) :
    (step P c y (.ingest k tr now p)).1.reg.timeouts[k]? = y.reg.timeouts[k]? ∧
    (step P c y (.ingest k tr now p)).1.det = y.det ∧
    (step P c y (.track k tr now)).1.reg.timeouts[k]? = y.reg.timeouts[k]? ∧
    (step P c y (.track k tr now)).1.det = y.det := by
  have hc : y.reg.decoys.contains k = true := CJ.Registry.contains_of_getElem? _ _ _ h
  have ht : (CJ.Registry.track c y.reg k tr now).1.timeouts[k]? = y.reg.timeouts[k]? := by
    rw [CJ.Registry.track_timeouts_get]; simp [h]
  have hi : (ingest c y.reg k tr now p).1.timeouts[k]? = y.reg.timeouts[k]? ∧
      (ingest c y.reg k tr now p).2 ≠ .new := by
    unfold ingest
    by_cases he : tr ∈ c.enabled
    · simp [he, hc, ht]
    · simp [he]
  refine ⟨hi.1, ?_, ht, ?_⟩
  · simp only [step, detStep, regStep]
    have : emitted (.ingest k tr now p) (ingest c y.reg k tr now p).2 = none := by
      rw [emitted_ingest, if_neg hi.2]
    rw [this]; rfl
  · simp only [step, detStep, regStep]
    have : emitted (.track k tr now) (if (CJ.Registry.track c y.reg k tr now).2 = true then CJ.Registry.Out.ok else .err) = none := by
      split <;> rfl
    rw [this]; rfl

/-! ### non-vacuity -/

def regOf4 : CJ.Registry.Key → Reg := fun _ => reg4

example : ∀ k, Announceable (regOf4 k) :=
  fun _ => show Announceable reg4 from ⟨by decide, by decide, by decide, by decide, by decide⟩

/-- a history with a registration, a duplicate, a connection, a connection for an unknown key, sweeps -/
def hist1 : List HOp :=
  [.ingest ("192.122.190.5", "id") 1 0 true, .ingest ("192.122.190.5", "id") 1 (9 * 60000000000) true,
   .sweep (9 * 60000000000 + 30), .markActive ("192.122.190.5", "id") 1 (9 * 60000000000 + 40),
   .markActive ("192.122.190.9", "zz") 1 (9 * 60000000000 + 50), .dsweep (9 * 60000000000 + 60)]

example : Mono 0 hist1 := by decide
example : accepts (stationCfg [1]) (tenMinutesNs - 1) ⟨0, false⟩ := by decide
example : ¬ accepts (stationCfg [1]) tenMinutesNs ⟨0, false⟩ := by decide
example : accepts (stationCfg [1]) (sixHoursNs - 1) ⟨0, true⟩ := by decide

/-- the hypotheses of `history_forwarded_while_accepted` are met by a concrete history: after one
registration the key is tracked, valid, and its record is inside the lifetime 5 ns later -/
example : ∃ r t, (Announce.run (codeParams regOf4) (stationCfg [1]) [.register ("192.122.190.5", "id") 1 0]).reg.decoys[("192.122.190.5", "id")]? = some r ∧
    r.valid = true ∧
    (Announce.run (codeParams regOf4) (stationCfg [1]) [.register ("192.122.190.5", "id") 1 0]).reg.timeouts[("192.122.190.5", "id")]? = some t ∧
    accepts (stationCfg [1]) 5 t := by
  refine ⟨⟨1, true, 1⟩, ⟨0, false⟩, ?_, rfl, ?_, by decide⟩ <;>
    simp [Announce.run, step, regStep, CJ.Registry.register, stationCfg]

/-- and the closure call of that registration is what `announced_only_for_tracked` talks about -/
example : emitted (.register ("192.122.190.5", "id") 1 0)
    (step (codeParams regOf4) (stationCfg [1]) (Announce.run (codeParams regOf4) (stationCfg [1]) []) (.register ("192.122.190.5", "id") 1 0)).2 =
      some (("192.122.190.5", "id"), .new) := by
  simp [Announce.run, step, regStep, CJ.Registry.register, stationCfg, emitted]

/-! ### the shutdown sequence and the channel's availability

`CJ.Announce.Station` puts the ingest pipeline (a registration parked in its covert resolution / liveness
probe between `TrackRegistration` and `AddRegistration`), `main`'s `cancel(); wg.Wait()` (`stop`), the deferred
`Cleanup()` (`cleanup`) and the reachability of the Redis server around the history model. -/

/-- everything that can announce a registration from the pipeline runs inside a goroutine the wait groups
count, and `main` waits on them before it returns — go/ast facts of the tree under test -/
def pipelineSync : Bool :=
  CJ.Gen.C10.asyncIngestCalls.isEmpty && CJ.Gen.C10.workersCounted && CJ.Gen.C10.mainWaitsForPipeline

/-- **`startIngestThread` ingests synchronously, the workers are counted, `main` waits for them** -/
theorem pipeline_synchronous : pipelineSync = true := by decide

/-- the station of the tree under test -/
def stationParams (regOf : CJ.Registry.Key → Reg) : SParams :=
  { P := codeParams regOf, clear := CJ.Gen.C10.clearMsg, sync := pipelineSync }

theorem avail_append (up : Bool) (a b : List SOp) : avail up (a ++ b) = avail (avail up a) b := by
  induction a generalizing up with
  | nil => rfl
  | cons e es ih => rw [List.cons_append, avail_cons, ih, ← avail_cons]

/-- **After `stop; cleanup` the clear request is the last message and the detector's table is empty and
stays empty.**  Whatever happened before (`pre`: registrations in one piece or parked in their probes,
connections, sweeps, outages of the channel — from any station state), if the channel is reachable when
`main` shuts down, then after `cancel(); wg.Wait()` (with any outcomes of the probes still running) and the
deferred `Cleanup()`, and after any further activity of the pipeline, the sweepers and the channel (`post`):
what reached the channel is what had reached it when `wg.Wait()` returned, followed by the Clear — in
particular every announcement of a registration that was mid-ingest comes *before* the Clear — and the
detector forwards nothing.  Premise in the code: `pipeline_synchronous`.  (Connection handlers are not
waited for by `main`: `MarkActive` after the shutdown is outside `post`, see the plan's assumptions.) -/
theorem shutdown_leaves_nothing (regOf : CJ.Registry.Key → Reg) (enabled : List Nat)
    (pre post : List SOp) (st0 : Station) (n1 n2 : Nat) (outs : List Bool)
    (hup : avail st0.up pre = true) (hq : ∀ e ∈ post, e.quiet = true) :
    (srun (stationParams regOf) (stationCfg enabled) (pre ++ [.stop n1 outs, .cleanup n2] ++ post) st0).log =
      (srun (stationParams regOf) (stationCfg enabled) (pre ++ [.stop n1 outs]) st0).log ++ [.clear] ∧
    (srun (stationParams regOf) (stationCfg enabled) (pre ++ [.stop n1 outs, .cleanup n2] ++ post) st0).sys.det = [] := by
  have hsplit : pre ++ [SOp.stop n1 outs, SOp.cleanup n2] ++ post = (pre ++ [SOp.stop n1 outs]) ++ ([SOp.cleanup n2] ++ post) := by
    simp
  rw [hsplit, srun_append, srun_append]
  generalize hA : srun (stationParams regOf) (stationCfg enabled) (pre ++ [SOp.stop n1 outs]) st0 = sA
  have hqA : Quiesced sA := by
    rw [← hA, srun_append]
    exact stop_quiesced (stationParams regOf) _ pipeline_synchronous _ n1 outs
  have hupA : sA.up = true := by
    rw [← hA, srun_up, avail_append, hup]; rfl
  have hC : srun (stationParams regOf) (stationCfg enabled) [SOp.cleanup n2] sA = publish (stationParams regOf) n2 sA .clear := rfl
  rw [hC]
  have hctl := publish_ctl (stationParams regOf) n2 sA .clear
  have hlog := publish_log (stationParams regOf) n2 sA .clear
  have hdet := publish_det (stationParams regOf) n2 sA .clear
  rw [hupA] at hlog hdet
  simp only [if_true] at hlog hdet
  have hdet' : (publish (stationParams regOf) n2 sA .clear).sys.det = [] := by
    rw [hdet]; exact clear_of_code_acted_on n2 sA.sys.det
  have hqC : Quiesced (publish (stationParams regOf) n2 sA .clear) := ⟨hctl.2.1.trans hqA.1, hctl.1.trans hqA.2⟩
  obtain ⟨h1, h2⟩ := quiet_run (stationParams regOf) (stationCfg enabled) post hq _ hqC hdet'
  exact ⟨h1.trans hlog, h2⟩

/-- **A publication depends on the channel's availability at that moment only.**  After any history of the
station — registrations, failed publications, an outage at the very first access — a message reaches the
channel iff the last thing the channel did was come up (`avail` looks at `chanUp` / `chanDown` events only),
and then it is appended to what had reached it before.  There is no "the client never connected" state. -/
theorem publication_depends_only_on_current_availability (Q : SParams) (c : CJ.Registry.Cfg) (evs : List SOp)
    (st0 : Station) (now : Nat) (m : Msg) :
    (publish Q now (srun Q c evs st0) m).log =
      if avail st0.up evs then (srun Q c evs st0).log ++ [m] else (srun Q c evs st0).log := by
  rw [publish_log, srun_up]

/-- in particular the clear request of a shutdown that finds the channel up empties the detector's table,
whatever the channel did before -/
theorem clear_delivered_when_up (regOf : CJ.Registry.Key → Reg) (enabled : List Nat) (evs : List SOp) (st0 : Station)
    (now : Nat) (hup : avail st0.up evs = true) :
    (srun (stationParams regOf) (stationCfg enabled) (evs ++ [.cleanup now]) st0).sys.det = [] ∧
    (srun (stationParams regOf) (stationCfg enabled) (evs ++ [.cleanup now]) st0).log =
      (srun (stationParams regOf) (stationCfg enabled) evs st0).log ++ [.clear] := by
  rw [srun_append]
  have hC : ∀ s, srun (stationParams regOf) (stationCfg enabled) [SOp.cleanup now] s = publish (stationParams regOf) now s .clear :=
    fun _ => rfl
  rw [hC, publish_det, publish_log, srun_up, hup]
  exact ⟨clear_of_code_acted_on now _, rfl⟩

/-- while the channel is up and the station runs, an event of the history model does to registry and
detector exactly what `CJ.Announce.step` says: the theorems about histories carry over to the station -/
theorem station_follows_history (Q : SParams) (c : CJ.Registry.Cfg) (st : Station) (o : HOp)
    (hu : st.up = true) (hs : st.stopped = false) :
    (sstep Q c st (.op o)).sys = (step Q.P c st.sys o).1 := by
  have h1 : sstep Q c st (.op o) = regEvent Q c st o := by simp [sstep, hs]
  have hv : ∀ (now : Nat) (s : Station) (e : Option (CJ.Registry.Key × Kind)), s.up = true →
      (viaChannel Q now s e).sys = { reg := s.sys.reg, det := announceTo Q.P now s.sys.det e } := by
    intro now s e hu'
    cases e with
    | none => rfl
    | some a =>
      obtain ⟨k, kind⟩ := a
      simp [viaChannel, publish, hu', announceTo, Msg.s2d]
  rw [h1]
  unfold regEvent step detStep
  have hw : (withReg st (regStep c st.sys.reg o).1).up = true := hu
  have := hv o.time (withReg st (regStep c st.sys.reg o).1) (emitted o (regStep c st.sys.reg o).2) hw
  cases o <;> simp_all [afterSweep, withReg]

end CJ.Props.C10
