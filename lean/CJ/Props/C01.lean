import CJ.Lemmas.Derive
/-!
# C01 — client and station derive the same phantom address, port and transport secrets

Property theorems only.  `stationDerive` mirrors what the station derives from a registration
(`NewRegistrationC2SWrapper` → `GenSharedKeys`, `Select`, `ParseParams`, `getPhantomDstPort`,
`GetIdentifier`); `clientDerive` is the client of the registration's library version: the published
key derivation of that version, then the frozen version 0 / 1 selectors or `SelectPhantom`, the
client transports' `GetDstPort` under the dialer's rule, `PrepareKeys`.  Both are programs over the
math/rand generator; `(p.run R g).1` is the value `p` returns when the generator implementation `R` is
in state `g`.

Quantifiers: every shared secret, library version, generation, family, configuration, transport,
well-typed parameter message; every instantiation of the cryptographic parameters (`Crypto`: HKDF
streams, HMAC, X25519) and every generator implementation in any state.  The `*_gen` theorems
instantiate the constants and tables with the ones dumped from the code on this run
(`CJ/Gen/C01Tables.lean`), so a change of a threshold, a port range or a prefix table re-opens them.
-/
namespace CJ.Props.C01
open CJ.Phantom CJ.Port CJ.Derive

/-- **Station = client** (address, port, seed, identifier), for every library version: whenever the
client of version `r.ver` derives a rendezvous, the station derives the same one from the
registration.  For versions 0/1 the client's address must be well formed (4 / 16 bytes: the frozen
clients keep the `big.Int.Bytes()` encoding) and the configuration must list subnets in every group
(the frozen clients skip groups without subnets, the station does not), the subnets fitting their
family (contract of `net.ParseCIDR`). -/
theorem station_eq_client (c : Crypto) (k : Consts) (cfg : Cfg) (gc : GenCfg) (r : Reg) (R : Rng) (g g' : R.G)
    (rv : Rendezvous)
    (hg : cfg.lookup r.gen = some gc)
    (htab : ∀ id, lookupPrefix k.stationPrefixes id = lookupPrefix k.clientPrefixes id)
    (hd : k.dtlsDefault = 443)
    (hrm : hkdfMinVersion ≤ k.randomizeMinVersion)
    (hpre : r.transport = .prefix → k.randomizeMinVersion ≤ r.ver)
    (hty : WellTyped k r.transport r.params)
    (hleg : r.ver < hkdfMinVersion →
      rv.addr.length = famLen (!r.v6) ∧ (∀ grp ∈ gc.groups, grp.isNil = false) ∧
      (∀ grp ∈ gc.groups, ∀ x, some x ∈ grp.nets → x.Fits))
    (hc : ((clientDerive c k gc r).run R g).1 = .ok rv) :
    ∃ rs, ((stationDerive c k cfg r).run R g').1 = .ok rs ∧ rs.seed = rv.seed ∧ rs.addr = rv.addr ∧
      rs.port = rv.port ∧ (r.transport ≠ .dtls → rs.ident = rv.ident) :=
  Derive.station_eq_client c k cfg gc r R g g' rv hg htab hd hrm hpre hty hleg hc

/-! ### the obligations about the code's own tables and constants (regenerated on every run) -/

/-- the thresholds the model uses are the ones in the code -/
theorem thresholds_pinned :
    CJ.Gen.C01.phantomSelectionMinGeneration = selectionMinGeneration ∧
    CJ.Gen.C01.phantomHkdfMinVersion = hkdfMinVersion ∧
    CJ.Gen.C01.sharedKeysRefactorMinVersion = sharedKeysRefactorMinVersion ∧
    CJ.Gen.C01.currentClientLibraryVersion = currentClientVersion ∧
    CJ.Gen.C01.coreRandomizeDstPortMinVersion = genConsts.randomizeMinVersion ∧
    CJ.Gen.C01.minRandomizeMinVersion = genConsts.randomizeMinVersion ∧
    CJ.Gen.C01.obfs4RandomizeMinVersion = genConsts.randomizeMinVersion ∧
    CJ.Gen.C01.prefixRandomizeMinVersion = genConsts.randomizeMinVersion := by decide

/-- `GenSharedKeys` places the seed where the published derivation of each library version has it
(104 bytes into the stream before the key refactor, at its start from version 4 on), and so does the
client code of this repository for its own version: measured on the code, compared with the model -/
theorem legacy_skip_pinned :
    (∀ p ∈ CJ.Gen.C01.stationSeedOffsets,
      p.2 = if p.1 < sharedKeysRefactorMinVersion then legacySkipLen else 0) ∧
    legacySkipLen = 104 ∧ sharedKeysRefactorMinVersion = 4 ∧
    CJ.Gen.C01.clientSeedOffset = (if currentClientVersion < sharedKeysRefactorMinVersion then legacySkipLen else 0) := by
  decide

/-- client and station have the same default port for every prefix either of them knows -/
theorem prefix_ports_agree :
    ∀ id, lookupPrefix genConsts.stationPrefixes id = lookupPrefix genConsts.clientPrefixes id := by
  have h : genConsts.stationPrefixes = genConsts.clientPrefixes := by decide
  intro id; rw [h]

/-- every prefix the station supports requires at least the version that introduced port
randomisation, as the model's `ParseParams` assumes -/
theorem prefix_min_versions :
    ∀ p ∈ CJ.Gen.C01.prefixMinVersions, p.2 = genConsts.randomizeMinVersion := by decide

/-- the port ranges are non-empty and fit 16 bits (so `PortSelectorRange` neither panics nor wraps) -/
theorem ranges_wf : genConsts.WF := ⟨by decide, by decide, by decide, by decide⟩

/-- **Station = client with the code's constants**: the table and threshold hypotheses of
`station_eq_client` hold for the constants dumped from the code on this run. -/
theorem station_eq_client_gen (c : Crypto) (cfg : Cfg) (gc : GenCfg) (r : Reg) (R : Rng) (g g' : R.G)
    (rv : Rendezvous)
    (hg : cfg.lookup r.gen = some gc)
    (hpre : r.transport = .prefix → genConsts.randomizeMinVersion ≤ r.ver)
    (hty : WellTyped genConsts r.transport r.params)
    (hleg : r.ver < hkdfMinVersion →
      rv.addr.length = famLen (!r.v6) ∧ (∀ grp ∈ gc.groups, grp.isNil = false) ∧
      (∀ grp ∈ gc.groups, ∀ x, some x ∈ grp.nets → x.Fits))
    (hc : ((clientDerive c genConsts gc r).run R g).1 = .ok rv) :
    ∃ rs, ((stationDerive c genConsts cfg r).run R g').1 = .ok rs ∧ rs.seed = rv.seed ∧ rs.addr = rv.addr ∧
      rs.port = rv.port ∧ (r.transport ≠ .dtls → rs.ident = rv.ident) :=
  Derive.station_eq_client c genConsts cfg gc r R g g' rv hg prefix_ports_agree (by decide) (by decide) hpre hty hleg hc

/-! ### keys -/

/-- the station's `GenSharedKeys` is the published key derivation of every library version -/
theorem station_keys_eq_published (c : Crypto) (ver : Nat) (secret : Bytes) :
    genSharedKeys c ver secret = specClientKeys c ver secret :=
  genSharedKeys_eq_spec c ver secret

/-- `GenerateClientSharedKeys` (this repository's client) is the published derivation of its version,
hence equal to what the station derives for `currentClientVersion` -/
theorem client_keys_eq_station (c : Crypto) (secret : Bytes) :
    clientSharedKeys c secret = genSharedKeys c currentClientVersion secret := by
  rw [genSharedKeys_eq_spec]; exact clientSharedKeys_eq_spec c secret

/-- obfs4 node keys, connect tags: both ends compute the identifier from the same stream bytes /
the same HMAC label (every transport that has a client-side identifier) -/
theorem identifiers_agree (c : Crypto) (t : Transport) (secret : Bytes) (keys : Keys) (ht : t ≠ .dtls) :
    stationIdentifier c t secret keys = clientIdentifier c t secret keys :=
  ident_agree c t secret keys ht

/-! ### ports -/

/-- whatever port the client dials, the station registers (same parameters, same subnet flag) -/
theorem port_station_eq_client (k : Consts) (s : Stream) (lim : Nat) (t : Transport) (ver : Nat)
    (sess : Option Wire) (sr : Bool) (q : Nat)
    (htab : ∀ id, lookupPrefix k.stationPrefixes id = lookupPrefix k.clientPrefixes id)
    (hpre : t = .prefix → k.randomizeMinVersion ≤ ver) (hd : k.dtlsDefault = 443)
    (hty : WellTyped k t sess) (h : clientPort k s lim t ver sess sr = .ok q) :
    stationPort k s lim t ver sess sr = .ok q :=
  port_agree k s lim t ver sess sr q htab hpre hd hty h

/-- **443 when**: the client library predates port randomisation, or the phantom's subnet does not
allow it — whatever the parameters ask for (as long as they parse) -/
theorem port_443_when (k : Consts) (s : Stream) (lim : Nat) (t : Transport) (ver : Nat) (data : Option Wire)
    (sr : Bool) (p : Params) (hp : parseParams k t ver data = .ok p)
    (hc : ver < k.randomizeMinVersion ∨ sr = false) : stationPort k s lim t ver data sr = .ok 443 :=
  stationPort_443 k s lim t ver data sr p hp hc

/-- **Port in range**: with the code's constants, every port the station registers is 443, the
transport's fixed default (DTLS: 443; prefix: the prefix's table entry), or lies in `[min, max)` of the
transport's range — or is 0 in the one case `PortSelectorRange` answers `0, nil`: the seeded reader
hit its entropy limit inside `rand.Int` -/
theorem port_in_range (s : Stream) (lim : Nat) (t : Transport) (ver : Nat) (data : Option Wire) (sr : Bool)
    (q : Nat) (h : stationPort genConsts s lim t ver data sr = .ok q) : PortOrigin genConsts s lim t q :=
  stationPort_origin genConsts ranges_wf s lim t ver data sr q h

/-- absent parameters or `randomize_dst_port = false`: the fixed port of the transport -/
theorem port_fixed_when_not_randomising (k : Consts) (s : Stream) (lim : Nat) (ver : Nat) (sr : Bool) :
    stationPort k s lim .min ver none sr = .ok 443 ∧
    stationPort k s lim .min ver (some (.generic false)) sr = .ok 443 ∧
    stationPort k s lim .obfs4 ver none sr = .ok 443 ∧
    stationPort k s lim .obfs4 ver (some (.generic false)) sr = .ok 443 := by
  by_cases hv : ver < k.randomizeMinVersion <;> cases sr <;>
    simp [stationPort, parseParams, getPhantomDstPort, transportDstPort, hv]

/-! ### determinism, totality, containment -/

/-- the derivation is a function of its inputs alone: no dependence on the generator's state -/
theorem derive_deterministic (c : Crypto) (k : Consts) (cfg : Cfg) (r : Reg) (R : Rng) (g g' : R.G) :
    ((stationDerive c k cfg r).run R g).1 = ((stationDerive c k cfg r).run R g').1 :=
  Prog.Seeded_run (stationDerive_seeded c k cfg r) R g g'

/-- the station path never panics (math/rand's `Intn` contract; port ranges of the code) -/
theorem station_no_panic (c : Crypto) (cfg : Cfg) (r : Reg) (R : Rng) (hR : R.Conforms intnContract) (g : R.G)
    (w : String) : ((stationDerive c genConsts cfg r).run R g).1 ≠ .panic w :=
  Prog.All_run hR (stationDerive_no_panic c genConsts ranges_wf cfg r) g w

/-- the registered phantom is a well-formed address of the requested family inside a subnet configured
for the registration's generation (C14, seen from the registration) -/
theorem station_phantom_contained (c : Crypto) (k : Consts) (cfg : Cfg) (r : Reg) (R : Rng) (g : R.G)
    (rs : Rendezvous) (h : ((stationDerive c k cfg r).run R g).1 = .ok rs) :
    ∃ gc, cfg.lookup r.gen = some gc ∧ ∃ n, FromCfg gc n ∧ n.v4 = (!r.v6) ∧
      rs.addr.length = famLen n.v4 ∧ n.base ≤ beNat rs.addr ∧ beNat rs.addr < n.base + 2 ^ (n.bits - n.ones) :=
  Prog.All_run (conforms_any R) (stationDerive_addr c k cfg r) g rs h

/-! ### non-vacuity -/

/-- a toy instantiation of the cryptographic parameters -/
def toyCrypto : Crypto where
  keyStream := fun secret i => UInt8.ofNat (secret.length + i)
  hk := ⟨fun seed _ i => UInt8.ofNat (seed.length * 7 + i), 8160⟩
  hmac := fun secret _ => secret
  x25519Base := id

def toyRng : Rng where
  G := Nat
  seed := fun s => s.toNat
  intn := fun g n => (g % n, g + 1)
  read := fun g n => (List.replicate n (UInt8.ofNat g), g + 1)

def toy0 : toyRng.G := (0 : Nat)

def cfg0 : Cfg := ⟨[(1, some ⟨false, [
  ⟨1, true, false, [some ⟨true, 0x0a010000, 30, 32⟩, some ⟨false, 0x20010db8000000000000000000000000, 126, 128⟩]⟩]⟩)]⟩
def gc0 : GenCfg := ⟨false, [
  ⟨1, true, false, [some ⟨true, 0x0a010000, 30, 32⟩, some ⟨false, 0x20010db8000000000000000000000000, 126, 128⟩]⟩]⟩

/-- version 4, min transport, randomised port on a subnet that allows it: the client derives a
rendezvous (so the hypotheses of `station_eq_client_gen` are satisfiable), with a port in the range -/
example : ((clientDerive toyCrypto genConsts gc0 ⟨[1, 2, 3], 4, 1, false, .min, some (.generic true)⟩).run toyRng toy0).1
    = .ok ⟨[3, 4, 5, 6, 7, 8, 9, 10, 11, 12, 13, 14, 15, 16, 17, 18], [10, 1, 0, 0], 29809, [1, 2, 3]⟩ := by
  decide

/-- version 1 (frozen client, math/rand): also derives a well-formed rendezvous, and the station the same -/
example : ((clientDerive toyCrypto genConsts gc0 ⟨[1, 2, 3], 1, 1, false, .min, none⟩).run toyRng toy0).1 =
    .ok ⟨[107, 108, 109, 110, 111, 112, 113, 114, 115, 116, 117, 118, 119, 120, 121, 122], [10, 1, 0, 0], 443, [1, 2, 3]⟩ := by
  decide
example : ((stationDerive toyCrypto genConsts cfg0 ⟨[1, 2, 3], 1, 1, false, .min, none⟩).run toyRng toy0).1 =
    .ok ⟨[107, 108, 109, 110, 111, 112, 113, 114, 115, 116, 117, 118, 119, 120, 121, 122], [10, 1, 0, 0], 443, [1, 2, 3]⟩ := by
  decide

example : WellTyped genConsts .min (some (.generic true)) := trivial
example : WellTyped genConsts .prefix (some (.prefix 9 false)) := by
  show (lookupPrefix genConsts.clientPrefixes 9).isSome = true
  decide
example : ∀ grp ∈ gc0.groups, ∀ x, some x ∈ grp.nets → x.Fits := by
  intro grp hg x hx
  simp only [gc0, List.mem_singleton] at hg
  subst hg
  simp only [List.mem_cons, Option.some.injEq, List.not_mem_nil, or_false] at hx
  rcases hx with rfl | rfl <;> (unfold RawNet.Fits; decide)
example : toyRng.Conforms intnContract := fun g _ hn => Nat.mod_lt g hn

end CJ.Props.C01
