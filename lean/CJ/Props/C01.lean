import CJ.Lemmas.Derive
import CJ.Lemmas.ClientSession
/-!
# C01 — client and station derive the same phantom address, port and transport secrets

Property theorems only.  `stationDerive` mirrors what the station derives from a registration
(`NewRegistrationC2SWrapper` → `GenSharedKeys`, `Select`, `ParseParams`, `getPhantomDstPort`,
`GetIdentifier`); `clientDerive` is the client of the registration's library version: the published
key derivation of that version, then the frozen version 0 / 1 selectors or `SelectPhantom`, the
client transports' `GetDstPort` under the dialer's rule, `PrepareKeys`.  Both are programs over the
math/rand generator; `(p.run R g).1` is the value `p` returns when the generator implementation `R` is
in state `g`.

Quantifiers: every shared secret, library version, generation, family, configuration, transport,
well-typed parameter message; every instantiation of the cryptographic parameters (`Crypto`: HKDF
streams, HMAC, X25519) and every generator implementation in any state.  The `*_gen` theorems
instantiate the constants and tables with the ones dumped from the code on this run
(`CJ/Gen/C01Tables.lean`), so a change of a threshold, a port range or a prefix table re-opens them.
-/
namespace CJ.Props.C01
open CJ.Phantom CJ.Port CJ.Derive

/-- **Station = client** (address, port, seed, identifier), for every library version: whenever the
client of version `r.ver` derives a rendezvous, the station derives the same one from the
registration.  For versions 0/1 the client's address must be well formed (4 / 16 bytes: the frozen
clients keep the `big.Int.Bytes()` encoding) and the configuration must list subnets in every group
(the frozen clients skip groups without subnets, the station does not), the subnets fitting their
family (contract of `net.ParseCIDR`). -/
theorem station_eq_client (c : Crypto) (k : Consts) (cfg : Cfg) (gc : GenCfg) (r : Reg) (R : Rng) (g g' : R.G)
    (rv : Rendezvous)
    (hg : cfg.lookup r.gen = some gc)
    (htab : ∀ id, lookupPrefix k.stationPrefixes id = lookupPrefix k.clientPrefixes id)
    (hd : k.dtlsDefault = 443)
    (hrm : hkdfMinVersion ≤ k.randomizeMinVersion)
    (hpre : r.transport = .prefix → k.randomizeMinVersion ≤ r.ver)
    (hty : WellTyped k r.transport r.params)
    (hleg : r.ver < hkdfMinVersion →
      rv.addr.length = famLen (!r.v6) ∧ (∀ grp ∈ gc.groups, grp.isNil = false) ∧
      (∀ grp ∈ gc.groups, ∀ x, some x ∈ grp.nets → x.Fits))
    (hc : ((clientDerive c k gc r).run R g).1 = .ok rv) :
    ∃ rs, ((stationDerive c k cfg r).run R g').1 = .ok rs ∧ rs.seed = rv.seed ∧ rs.addr = rv.addr ∧
      rs.port = rv.port ∧ (r.transport ≠ .dtls → rs.ident = rv.ident) :=
  Derive.station_eq_client c k cfg gc r R g g' rv hg htab hd hrm hpre hty hleg hc

/-! ### the obligations about the code's own tables and constants (regenerated on every run) -/

/-- the thresholds the model uses are the ones in the code -/
theorem thresholds_pinned :
    CJ.Gen.C01.phantomSelectionMinGeneration = selectionMinGeneration ∧
    CJ.Gen.C01.phantomHkdfMinVersion = hkdfMinVersion ∧
    CJ.Gen.C01.sharedKeysRefactorMinVersion = sharedKeysRefactorMinVersion ∧
    CJ.Gen.C01.currentClientLibraryVersion = currentClientVersion ∧
    CJ.Gen.C01.coreRandomizeDstPortMinVersion = genConsts.randomizeMinVersion ∧
    CJ.Gen.C01.minRandomizeMinVersion = genConsts.randomizeMinVersion ∧
    CJ.Gen.C01.obfs4RandomizeMinVersion = genConsts.randomizeMinVersion ∧
    CJ.Gen.C01.prefixRandomizeMinVersion = genConsts.randomizeMinVersion := by decide

/-- **The published constants**, literally: port ranges, default ports, the first library version
with port randomisation, the default port of every published prefix.  Client and station read most
of these from shared declarations, so a change moves both ends together — and strands every client
already in the field; the comparison of the two sides cannot see that, this theorem does.  (The
station may *add* prefixes; the published ones must keep their ports.) -/
theorem constants_pinned :
    CJ.Gen.C01.minRange = (1024, 65535) ∧ CJ.Gen.C01.obfs4Range = (22, 65535) ∧
    CJ.Gen.C01.prefixRange = (1024, 65535) ∧ CJ.Gen.C01.dtlsRange = (1024, 65535) ∧
    CJ.Gen.C01.dtlsDefaultPort = 443 ∧
    CJ.Gen.C01.ingestRandomizeMinVersion = 3 ∧ CJ.Gen.C01.coreRandomizeDstPortMinVersion = 3 ∧
    CJ.Gen.C01.minRandomizeMinVersion = 3 ∧ CJ.Gen.C01.obfs4RandomizeMinVersion = 3 ∧
    CJ.Gen.C01.prefixRandomizeMinVersion = 3 ∧
    CJ.Gen.C01.phantomSelectionMinGeneration = 1 ∧ CJ.Gen.C01.phantomHkdfMinVersion = 2 ∧
    CJ.Gen.C01.sharedKeysRefactorMinVersion = 4 ∧
    (∀ p ∈ [((0 : Int), 443), (1, 80), (2, 80), (3, 80), (4, 443), (5, 443), (6, 443), (7, 443), (8, 53), (9, 22)],
      p ∈ CJ.Gen.C01.stationPrefixes ∧ p ∈ CJ.Gen.C01.clientPrefixes) ∧
    (∀ p ∈ [((0 : Int), 3), (1, 3), (2, 3), (3, 3), (4, 3), (5, 3), (6, 3), (7, 3), (8, 3), (9, 3)],
      p ∈ CJ.Gen.C01.prefixMinVersions) := by decide

/-- `GenSharedKeys` places the seed where the published derivation of each library version has it
(104 bytes into the stream before the key refactor, at its start from version 4 on), and so does the
client code of this repository for its own version: measured on the code, compared with the model -/
theorem legacy_skip_pinned :
    (∀ p ∈ CJ.Gen.C01.stationSeedOffsets,
      p.2 = if p.1 < sharedKeysRefactorMinVersion then legacySkipLen else 0) ∧
    legacySkipLen = 104 ∧ sharedKeysRefactorMinVersion = 4 ∧
    CJ.Gen.C01.clientSeedOffset = (if currentClientVersion < sharedKeysRefactorMinVersion then legacySkipLen else 0) := by
  decide

/-- client and station have the same default port for every prefix either of them knows -/
theorem prefix_ports_agree :
    ∀ id, lookupPrefix genConsts.stationPrefixes id = lookupPrefix genConsts.clientPrefixes id := by
  have h : genConsts.stationPrefixes = genConsts.clientPrefixes := by decide
  intro id; rw [h]

/-- every prefix the station supports requires at least the version that introduced port
randomisation, as the model's `ParseParams` assumes -/
theorem prefix_min_versions :
    ∀ p ∈ CJ.Gen.C01.prefixMinVersions, p.2 = genConsts.randomizeMinVersion := by decide

/-- the port ranges are non-empty and fit 16 bits (so `PortSelectorRange` neither panics nor wraps) -/
theorem ranges_wf : genConsts.WF := ⟨by decide, by decide, by decide, by decide⟩

/-- **Station = client with the code's constants**: the table and threshold hypotheses of
`station_eq_client` hold for the constants dumped from the code on this run. -/
theorem station_eq_client_gen (c : Crypto) (cfg : Cfg) (gc : GenCfg) (r : Reg) (R : Rng) (g g' : R.G)
    (rv : Rendezvous)
    (hg : cfg.lookup r.gen = some gc)
    (hpre : r.transport = .prefix → genConsts.randomizeMinVersion ≤ r.ver)
    (hty : WellTyped genConsts r.transport r.params)
    (hleg : r.ver < hkdfMinVersion →
      rv.addr.length = famLen (!r.v6) ∧ (∀ grp ∈ gc.groups, grp.isNil = false) ∧
      (∀ grp ∈ gc.groups, ∀ x, some x ∈ grp.nets → x.Fits))
    (hc : ((clientDerive c genConsts gc r).run R g).1 = .ok rv) :
    ∃ rs, ((stationDerive c genConsts cfg r).run R g').1 = .ok rs ∧ rs.seed = rv.seed ∧ rs.addr = rv.addr ∧
      rs.port = rv.port ∧ (r.transport ≠ .dtls → rs.ident = rv.ident) :=
  Derive.station_eq_client c genConsts cfg gc r R g g' rv hg prefix_ports_agree (by decide) (by decide) hpre hty hleg hc

/-! ### keys -/

/-- the station's `GenSharedKeys` is the published key derivation of every library version -/
theorem station_keys_eq_published (c : Crypto) (ver : Nat) (secret : Bytes) :
    genSharedKeys c ver secret = specClientKeys c ver secret :=
  genSharedKeys_eq_spec c ver secret

/-- `GenerateClientSharedKeys` (this repository's client) is the published derivation of its version,
hence equal to what the station derives for `currentClientVersion` -/
theorem client_keys_eq_station (c : Crypto) (secret : Bytes) :
    clientSharedKeys c secret = genSharedKeys c currentClientVersion secret := by
  rw [genSharedKeys_eq_spec]; exact clientSharedKeys_eq_spec c secret

/-- **Identifiers across the two key derivations.**  The station computes the identifier from the keys
`GenSharedKeys(ver, secret)` gives it, the client of library version `ver` from the keys of the published
derivation of that version.  For obfs4 this is where the two could part: the node keys are the 32 + 20
bytes *after* the seed, and where the seed sits depends on the version (104 bytes into the stream before
the key refactor).  For min and prefix both ends are the same HMAC label in the model; that the real
client emits exactly these bytes is tied by the harness alone (the captured `WrapConn` flight — for
prefix the tag revealed with the station key — against the station's `GetIdentifier` and the Lean HMAC). -/
theorem identifiers_agree (c : Crypto) (t : Transport) (ver : Nat) (secret : Bytes) (ks kc : Keys)
    (hs : genSharedKeys c ver secret = .ok ks) (hc : specClientKeys c ver secret = .ok kc) (ht : t ≠ .dtls) :
    stationIdentifier c t secret ks = clientIdentifier c t secret kc := by
  rw [genSharedKeys_eq_spec, hc] at hs
  have e : kc = ks := Outcome.ok.inj hs
  rw [← e]
  exact ident_agree c t secret kc ht

/-- the client code of this repository (`GenerateClientSharedKeys`, library version
`currentClientVersion`): the reader it hands to `PrepareKeys` stands where the station's does -/
theorem identifiers_agree_current (c : Crypto) (t : Transport) (secret : Bytes) (ks kc : Keys)
    (hs : genSharedKeys c currentClientVersion secret = .ok ks) (hc : clientSharedKeys c secret = .ok kc)
    (ht : t ≠ .dtls) : stationIdentifier c t secret ks = clientIdentifier c t secret kc := by
  rw [clientSharedKeys_eq_spec] at hc
  exact identifiers_agree c t currentClientVersion secret ks kc hs hc ht

/-- **DTLS credentials**: both ends hand the same pre-shared key — the shared secret itself — to the
handshake, for every library version (the client's choice does not depend on the keys or the reader
position of its version), hence derive the same ClientHello random and certificates.  In the model
both sides are the secret; what ties this to the code is the harness: the key the real client transport
holds after `PrepareKeys` and the one the station reads from the registration are compared with each
other and with this model (`dtlscred|…` lines), the certificates derived from both are compared, and
`certsFromSeed` is pinned by golden vectors. -/
theorem dtls_credentials_agree (hello : Bytes → Bytes) (c : Crypto) (ver : Nat) (secret : Bytes) (kc : Keys)
    (_hc : specClientKeys c ver secret = .ok kc) :
    dtlsCred hello (clientDtlsPsk secret kc) = dtlsCred hello (stationDtlsPsk secret) ∧
    (dtlsCred hello (stationDtlsPsk secret)).psk = secret := ⟨rfl, rfl⟩

/-! ### ports -/

/-- whatever port the client dials, the station registers (same parameters, same subnet flag).
`clientPort` is the transport's `GetDstPort` under the *dialer's rule* — 443 for library versions before
port randomisation and whenever the selected phantom's subnet does not support it.  That rule lives in
the client library outside this repository (gotapdance); it is an assumption of the plan, written down
once more in the harness (`c.ver >= 3 && s.rp`), not something the check reads off code. -/
theorem port_station_eq_client (k : Consts) (s : Stream) (lim : Nat) (t : Transport) (ver : Nat)
    (sess : Option Wire) (sr : Bool) (q : Nat)
    (htab : ∀ id, lookupPrefix k.stationPrefixes id = lookupPrefix k.clientPrefixes id)
    (hpre : t = .prefix → k.randomizeMinVersion ≤ ver) (hd : k.dtlsDefault = 443)
    (hty : WellTyped k t sess) (h : clientPort k s lim t ver sess sr = .ok q) :
    stationPort k s lim t ver sess sr = .ok q :=
  port_agree k s lim t ver sess sr q htab hpre hd hty h

/-- **443 when**: the client library predates port randomisation, or the phantom's subnet does not
allow it — whatever the parameters ask for (as long as they parse) -/
theorem port_443_when (k : Consts) (s : Stream) (lim : Nat) (t : Transport) (ver : Nat) (data : Option Wire)
    (sr : Bool) (p : Params) (hp : parseParams k t ver data = .ok p)
    (hc : ver < k.randomizeMinVersion ∨ sr = false) : stationPort k s lim t ver data sr = .ok 443 :=
  stationPort_443 k s lim t ver data sr p hp hc

/-- **Port in range**: with the code's constants, every port the station registers is 443, the
transport's fixed default (DTLS: 443; prefix: the prefix's table entry), or lies in `[min, max)` of the
transport's range — or is 0 in the one case `PortSelectorRange` answers `0, nil`: the seeded reader
hit its entropy limit inside `rand.Int` -/
theorem port_in_range (s : Stream) (lim : Nat) (t : Transport) (ver : Nat) (data : Option Wire) (sr : Bool)
    (q : Nat) (h : stationPort genConsts s lim t ver data sr = .ok q) : PortOrigin genConsts s lim t q :=
  stationPort_origin genConsts ranges_wf s lim t ver data sr q h

/-- absent parameters or `randomize_dst_port = false`: the fixed port of the transport — 443 for min
and obfs4; for DTLS 443 or the transport's default port (pinned to 443 by `constants_pinned`); for a
prefix the prefix's default port where the subnet allows randomisation, 443 where it does not -/
theorem port_fixed_when_not_randomising (k : Consts) (s : Stream) (lim : Nat) (ver : Nat) (sr : Bool) :
    stationPort k s lim .min ver none sr = .ok 443 ∧
    stationPort k s lim .min ver (some (.generic false)) sr = .ok 443 ∧
    stationPort k s lim .obfs4 ver none sr = .ok 443 ∧
    stationPort k s lim .obfs4 ver (some (.generic false)) sr = .ok 443 ∧
    stationPort k s lim .dtls ver none sr =
      .ok (if ver < k.randomizeMinVersion ∨ sr = false then 443 else k.dtlsDefault) ∧
    stationPort k s lim .dtls ver (some (.dtls false)) sr =
      .ok (if ver < k.randomizeMinVersion ∨ sr = false then 443 else k.dtlsDefault) ∧
    (∀ id d, lookupPrefix k.stationPrefixes id = some d → k.randomizeMinVersion ≤ ver →
      stationPort k s lim .prefix ver (some (.prefix id false)) sr = .ok (if sr = false then 443 else d)) := by
  refine ⟨?_, ?_, ?_, ?_, ?_, ?_, ?_⟩
  iterate 6
    by_cases hv : ver < k.randomizeMinVersion <;> cases sr <;>
      simp [stationPort, parseParams, getPhantomDstPort, transportDstPort, hv]
  intro id d hl hv'
  have hv : ¬ ver < k.randomizeMinVersion := by omega
  cases sr <;> simp [stationPort, parseParams, getPhantomDstPort, transportDstPort, hv, hl]

/-- with the code's constants the fixed DTLS port is 443 whatever the subnet says -/
theorem dtls_port_fixed_gen (s : Stream) (lim : Nat) (ver : Nat) (sr : Bool) :
    stationPort genConsts s lim .dtls ver none sr = .ok 443 ∧
    stationPort genConsts s lim .dtls ver (some (.dtls false)) sr = .ok 443 := by
  have h := port_fixed_when_not_randomising genConsts s lim ver sr
  have hd : genConsts.dtlsDefault = 443 := by decide
  refine ⟨?_, ?_⟩
  · rw [h.2.2.2.2.1, hd]; simp
  · rw [h.2.2.2.2.2.1, hd]; simp

/-! ### client-side histories: configuration for future sessions vs. the parameters of the session

`CJ.ClientSession.step` mirrors the methods of the four `ClientTransport`s (`SetParams`, `Prepare`,
`SetSessionParams`, `GetParams`, `GetDstPort`, `PrepareKeys`+`WrapConn`) and the client's treatment of a
registration response (`unpack`: gotapdance `UnpackRegResp`); a state holds the configuration (`par`,
`cfgPfx`) and the session (`sess`, `pfx`) apart.  The harness runs whole histories through the real
objects and through `run` (`chist|…`). -/

open CJ.ClientSession in
/-- **The connect-time port is a function of the session alone**: `GetDstPort` answers the same in any two
states of a client transport that agree on the session parameters (and, prefix transport, on the session's
prefix object) — whatever the configuration for future sessions says in either. -/
theorem client_port_from_session_params (k : Consts) (s : Stream) (lim : Nat) (t : Transport) (st st' : St)
    (hs : st.sess = st'.sess) (hp : st.pfx = st'.pfx) :
    (step k s lim t st .getDstPort).2 = (step k s lim t st' .getDstPort).2 :=
  getDstPort_reads_session k s lim t st st' hs hp

open CJ.ClientSession in
/-- **Re-configuring does not touch the session**: `SetParams` with any argument leaves the session
parameters and the session's prefix object as they are (prefix transport: once a session exists). -/
theorem reconfiguration_keeps_session (k : Consts) (s : Stream) (lim : Nat) (t : Transport) (st : St) (a : Arg)
    (h : t = .prefix → st.sess ≠ none ∧ st.pfx ≠ none) :
    (step k s lim t st (.setParams a)).1.sess = st.sess ∧ (step k s lim t st (.setParams a)).1.pfx = st.pfx :=
  setParams_keeps_session k s lim t st a h

open CJ.ClientSession in
/-- **Any earlier history, then configure and `Prepare`**: the session that starts registers the configured
parameters (`GetParams`), they are well typed, and the session is coherent (`Registered`: the prefix object
is the client's table entry of the registered prefix id) — whatever state earlier sessions, overrides or
re-configurations left the object in. -/
theorem session_registers_configuration (k : Consts) (s : Stream) (lim : Nat) (t : Transport) (st0 : St) (a : Arg)
    (ha : OwnArg t a) (hok : (step k s lim t st0 (.setParams a)).2 = .ok) :
    ∃ w, (step k s lim t (step k s lim t (step k s lim t st0 (.setParams a)).1 .prepare).1 .getParams).2 = .params (some w) ∧
      Registered t (step k s lim t (step k s lim t (step k s lim t st0 (.setParams a)).1 .prepare).1 .getParams).1 w ∧
      WellTyped k t (some w) :=
  configure_prepare_registers k s lim t st0 a ha hok

open CJ.ClientSession in
/-- **The history theorem for the port.**  A session registered the parameters `w`; the dialer then
re-configures the object for later sessions any number of times (`SetParams` with any arguments); the port
it dials at connect time (`GetDstPort` under the dialer's rule) is the port the station derives from the
registration that carries `w`. -/
theorem registered_port_agrees (k : Consts) (s : Stream) (lim : Nat) (t : Transport) (ver : Nat) (sr : Bool)
    (st : St) (w : Wire) (as : List Arg) (q : Nat)
    (hreg : Registered t st w) (hty : WellTyped k t (some w))
    (htab : ∀ id, lookupPrefix k.stationPrefixes id = lookupPrefix k.clientPrefixes id)
    (hpre : t = .prefix → k.randomizeMinVersion ≤ ver) (hd : k.dtlsDefault = 443)
    (h : dialerPort k ver sr (step k s lim t (reconfigure k s lim t st as) .getDstPort).2 = .ok q) :
    stationPort k s lim t ver (some w) sr = .ok q := by
  rw [registered_getDstPort k s lim t _ w (registered_reconfigure k s lim t w as st hreg) hty,
    dialerPort_eq_clientPort] at h
  exact port_agree k s lim t ver (some w) sr q htab hpre hd hty h

/-! ### registrar responses: both sides of the override guard -/

open CJ.ClientSession in
/-- **Overrides are applied iff allowed, on both sides.**  The client registered `w`.  The registrar's
response (which the client is handed and which travels to the station inside the wrapper) carries
transport parameters or not; the client disabled registrar overrides or not.  In all four combinations
the parameters the client's session runs with after `UnpackRegResp` are the parameters the station builds
the registration from (`NewRegistrationC2SWrapper`), and both are the response's parameters exactly when
they are present and overrides are not disabled — else the registered ones. -/
theorem overrides_applied_iff_allowed_both_sides (k : Consts) (s : Stream) (lim : Nat) (t : Transport) (st : St)
    (w : Wire) (disable : Bool) (rr : Resp) (ht : t ≠ .unknown) (hreg : st.sess = some w) (hpar : st.par ≠ none)
    (hty : ∀ w', rr.tp = some w' → OwnWire t w') :
    (step k s lim t st (.unpack disable rr.tp)).1.sess = ingestParams disable (some rr) (some w) ∧
    ingestParams disable (some rr) (some w) = (if rr.tp.isSome = true ∧ disable = false then rr.tp else some w) :=
  ⟨unpack_eq_ingest k s lim t st w disable rr ht hreg hpar hty, ingestParams_eq disable rr (some w)⟩

open CJ.ClientSession in
/-- after the response the ports still agree (min, obfs4, dtls: the transports whose port is a function
of the parameters alone): the port the client's transport derives from its session equals the port the
station derives from the parameters it applied.  (A response that carries `dst_port` settles the port on
both sides, `ingest_with_response`; for a prefix pushed by the registrar that is the only channel — the
prefix object built from a response has no port, see `response_prefix_agrees`.) -/
theorem response_port_agrees (k : Consts) (s : Stream) (lim : Nat) (t : Transport) (ver : Nat) (sr : Bool) (st : St)
    (w : Wire) (disable : Bool) (rr : Resp) (q : Nat)
    (ht : t = .min ∨ t = .obfs4 ∨ t = .dtls) (hreg : st.sess = some w) (hpar : st.par ≠ none)
    (hw : OwnWire t w) (hty : ∀ w', rr.tp = some w' → OwnWire t w')
    (htab : ∀ id, lookupPrefix k.stationPrefixes id = lookupPrefix k.clientPrefixes id) (hd : k.dtlsDefault = 443)
    (h : dialerPort k ver sr (step k s lim t (step k s lim t st (.unpack disable rr.tp)).1 .getDstPort).2 = .ok q) :
    stationPort k s lim t ver (ingestParams disable (some rr) (some w)) sr = .ok q := by
  have htu : t ≠ .unknown := by rcases ht with h | h | h <;> simp [h]
  have htp : t ≠ .prefix := by rcases ht with h | h | h <;> simp [h]
  have he := unpack_eq_ingest k s lim t st w disable rr htu hreg hpar hty
  have hsome : ∃ e, ingestParams disable (some rr) (some w) = some e ∧ OwnWire t e := by
    rw [ingestParams_eq]
    by_cases hc : rr.tp.isSome = true ∧ disable = false
    · rw [if_pos hc]
      obtain ⟨e, he'⟩ := Option.isSome_iff_exists.mp hc.1
      exact ⟨e, he', hty e he'⟩
    · rw [if_neg hc]; exact ⟨w, rfl, hw⟩
  obtain ⟨e, hee, hoe⟩ := hsome
  have hwt : WellTyped k t (some e) := by
    rcases ht with h | h | h <;> subst h <;> cases e <;> simp_all [OwnWire, WellTyped]
  have hr : Registered t (step k s lim t st (.unpack disable rr.tp)).1 e :=
    ⟨by rw [he, hee], fun hp => absurd hp htp⟩
  rw [registered_getDstPort k s lim t _ e hr hwt, dialerPort_eq_clientPort] at h
  rw [hee]
  exact port_agree k s lim t ver (some e) sr q htab (fun hp => absurd hp htp) hd hwt h

open CJ.ClientSession in
/-- prefix transport: the prefix whose bytes open the client's first flight after the response is the
prefix the station registered — the overriding one iff the override is applied on both sides -/
theorem response_prefix_agrees (k : Consts) (s : Stream) (lim : Nat) (st : St) (id : Int) (r : Bool)
    (disable : Bool) (rr : Resp) (hreg : Registered .prefix st (.prefix id r)) (hpar : st.par ≠ none)
    (hty : ∀ w', rr.tp = some w' → OwnWire .prefix w') :
    ∃ id' r', ingestParams disable (some rr) (some (.prefix id r)) = some (.prefix id' r') ∧
      (step k s lim .prefix (step k s lim .prefix st (.unpack disable rr.tp)).1 .wrap).2 = .sent id' := by
  obtain ⟨id0, r0, hw, hp⟩ := hreg.2 rfl
  cases hw
  have hpn : st.par.isNone = false := by cases h : st.par <;> simp_all
  cases htp : rr.tp with
  | none => exact ⟨id, r, by simp [ingestParams, htp], by simp [step, prefixStep, hp, PObj.id]⟩
  | some w' =>
    have ho := hty w' htp
    cases w' <;> simp only [OwnWire] at ho
    rename_i id' r'
    cases disable
    · exact ⟨id', r', by simp [ingestParams, htp], by simp [step, prefixStep, prefixSetSession, hpn, PObj.id]⟩
    · exact ⟨id, r, by simp [ingestParams, htp], by simp [step, prefixStep, hp, PObj.id]⟩

open CJ.ClientSession in
/-- a wrapper without a response is the plain derivation: every theorem above about `stationDerive`
speaks about the ingest path -/
theorem ingest_without_response (c : Crypto) (k : Consts) (cfg : Cfg) (r : Reg) (disable : Bool) (R : Rng) (g : R.G) :
    ((stationIngest c k cfg r disable none).run R g).1 = ((stationDerive c k cfg r).run R g).1 :=
  stationIngest_none c k cfg r disable R g

open CJ.ClientSession in
/-- with a response: the derivation from the parameters `ingestParams` selects, then the response's
phantom address and port where it carries them (what the bidirectional client dials) -/
theorem ingest_with_response (c : Crypto) (k : Consts) (cfg : Cfg) (r : Reg) (disable : Bool) (rr : Resp) (R : Rng) (g : R.G) :
    ((stationIngest c k cfg r disable (some rr)).run R g).1 =
      match ((stationDerive c k cfg { r with params := ingestParams disable (some rr) r.params }).run R g).1 with
      | .ok rv => .ok { rv with addr := rr.addr.getD rv.addr, port := (rr.port.map (· % 65536)).getD rv.port }
      | d => d :=
  stationIngest_some c k cfg r disable rr R g

/-! ### the bound of the port draw, exactly

`constants_pinned` pins the ranges; this says what the bound means for the draw, with the code's ranges:
the first 16-bit word `c` of the "phantom-select-dst-port" stream gives port `c + min` iff `c < max − min`;
the word `max − min` itself (64511 for min / prefix / dtls, 65513 for obfs4) is *rejected* and the next word
is taken.  A range widened by one accepts that word instead — client and station together — which is what
the boundary-directed secrets of the harness exercise on the real code. -/

open CJ.ClientSession in
theorem port_draw_bound (s : Stream) (lim : Nat) (hl : 2 ≤ lim) :
    ∀ rg ∈ [genConsts.minRange, genConsts.obfs4Range, genConsts.prefixRange, genConsts.dtlsRange],
      (beNat (readAt s 0 2) < rg.2 - rg.1 →
        portSelectorRange s lim rg.1 rg.2 = .ok ((beNat (readAt s 0 2) + rg.1) % 65536)) ∧
      (rg.2 - rg.1 ≤ beNat (readAt s 0 2) → portSelectorRange s lim rg.1 rg.2 =
        match randIntLoop s lim 2 8 (rg.2 - rg.1) lim 2 with
        | .ok p => .ok ((p + rg.1) % 65536) | .err _ => .ok 0 | .panic w => .panic w) := by
  intro rg hrg
  have h : (rg = (1024, 65535)) ∨ (rg = (22, 65535)) := by
    have e1 : genConsts.minRange = (1024, 65535) := by decide
    have e2 : genConsts.obfs4Range = (22, 65535) := by decide
    have e3 : genConsts.prefixRange = (1024, 65535) := by decide
    have e4 : genConsts.dtlsRange = (1024, 65535) := by decide
    simp only [List.mem_cons, List.not_mem_nil, or_false, e1, e2, e3, e4] at hrg
    rcases hrg with h | h | h | h <;> simp [h]
  rcases h with h | h <;> subst h
  · exact portSelectorRange_first_candidate s lim 1024 hl 64511 (by decide) (by decide)
  · exact portSelectorRange_first_candidate s lim 22 hl 65513 (by decide) (by decide)

/-! ### determinism, totality, containment -/

/-- the derivation is a function of its inputs alone: no dependence on the generator's state -/
theorem derive_deterministic (c : Crypto) (k : Consts) (cfg : Cfg) (r : Reg) (R : Rng) (g g' : R.G) :
    ((stationDerive c k cfg r).run R g).1 = ((stationDerive c k cfg r).run R g').1 :=
  Prog.Seeded_run (stationDerive_seeded c k cfg r) R g g'

/-- the station path never panics (math/rand's `Intn` contract; port ranges of the code) -/
theorem station_no_panic (c : Crypto) (cfg : Cfg) (r : Reg) (R : Rng) (hR : R.Conforms intnContract) (g : R.G)
    (w : String) : ((stationDerive c genConsts cfg r).run R g).1 ≠ .panic w :=
  Prog.All_run hR (stationDerive_no_panic c genConsts ranges_wf cfg r) g w

/-- the registered phantom is a well-formed address of the requested family inside a subnet configured
for the registration's generation (C14, seen from the registration) -/
theorem station_phantom_contained (c : Crypto) (k : Consts) (cfg : Cfg) (r : Reg) (R : Rng) (g : R.G)
    (rs : Rendezvous) (h : ((stationDerive c k cfg r).run R g).1 = .ok rs) :
    ∃ gc, cfg.lookup r.gen = some gc ∧ ∃ n, FromCfg gc n ∧ n.v4 = (!r.v6) ∧
      rs.addr.length = famLen n.v4 ∧ n.base ≤ beNat rs.addr ∧ beNat rs.addr < n.base + 2 ^ (n.bits - n.ones) :=
  Prog.All_run (conforms_any R) (stationDerive_addr c k cfg r) g rs h

/-! ### non-vacuity -/

/-- a toy instantiation of the cryptographic parameters -/
def toyCrypto : Crypto where
  keyStream := fun secret i => UInt8.ofNat (secret.length + i)
  hk := ⟨fun seed _ i => UInt8.ofNat (seed.length * 7 + i), 8160⟩
  hmac := fun secret _ => secret
  x25519Base := id

def toyRng : Rng where
  G := Nat
  seed := fun s => s.toNat
  intn := fun g n => (g % n, g + 1)
  read := fun g n => (List.replicate n (UInt8.ofNat g), g + 1)

def toy0 : toyRng.G := (0 : Nat)

def cfg0 : Cfg := ⟨[(1, some ⟨false, [
  ⟨1, true, false, [some ⟨true, 0x0a010000, 30, 32⟩, some ⟨false, 0x20010db8000000000000000000000000, 126, 128⟩]⟩]⟩)]⟩
def gc0 : GenCfg := ⟨false, [
  ⟨1, true, false, [some ⟨true, 0x0a010000, 30, 32⟩, some ⟨false, 0x20010db8000000000000000000000000, 126, 128⟩]⟩]⟩

/-- version 4, min transport, randomised port on a subnet that allows it: the client derives a
rendezvous (so the hypotheses of `station_eq_client_gen` are satisfiable), with a port in the range -/
example : ((clientDerive toyCrypto genConsts gc0 ⟨[1, 2, 3], 4, 1, false, .min, some (.generic true)⟩).run toyRng toy0).1
    = .ok ⟨[3, 4, 5, 6, 7, 8, 9, 10, 11, 12, 13, 14, 15, 16, 17, 18], [10, 1, 0, 0], 29809, [1, 2, 3]⟩ := by
  decide

/-- version 1 (frozen client, math/rand): also derives a well-formed rendezvous, and the station the same -/
example : ((clientDerive toyCrypto genConsts gc0 ⟨[1, 2, 3], 1, 1, false, .min, none⟩).run toyRng toy0).1 =
    .ok ⟨[107, 108, 109, 110, 111, 112, 113, 114, 115, 116, 117, 118, 119, 120, 121, 122], [10, 1, 0, 0], 443, [1, 2, 3]⟩ := by
  decide
example : ((stationDerive toyCrypto genConsts cfg0 ⟨[1, 2, 3], 1, 1, false, .min, none⟩).run toyRng toy0).1 =
    .ok ⟨[107, 108, 109, 110, 111, 112, 113, 114, 115, 116, 117, 118, 119, 120, 121, 122], [10, 1, 0, 0], 443, [1, 2, 3]⟩ := by
  decide

example : WellTyped genConsts .min (some (.generic true)) := trivial
example : WellTyped genConsts .prefix (some (.prefix 9 false)) := by
  show (lookupPrefix genConsts.clientPrefixes 9).isSome = true
  decide
example : ∀ grp ∈ gc0.groups, ∀ x, some x ∈ grp.nets → x.Fits := by
  intro grp hg x hx
  simp only [gc0, List.mem_singleton] at hg
  subst hg
  simp only [List.mem_cons, Option.some.injEq, List.not_mem_nil, or_false] at hx
  rcases hx with rfl | rfl <;> (unfold RawNet.Fits; decide)
example : toyRng.Conforms intnContract := fun g _ hn => Nat.mod_lt g hn

/-! ### non-vacuity of the history theorems: histories on the model with the code's constants -/

section
open CJ.ClientSession

def toyStream : Stream := fun i => UInt8.ofNat (i * 7 + 3)

/-- re-configured for the next dial while the session is active: the registered parameters randomise, the
port stays the seeded one (and is the station's for that registration) -/
example : (run genConsts toyStream 8160 .min {}
    [.setParams (.generic true), .prepare, .getParams, .setParams (.generic false), .getDstPort]).2 =
    [.ok, .ok, .params (some (.generic true)), .ok, .port (.ok 1802)] := by decide
example : stationPort genConsts toyStream 8160 .min 4 (some (.generic true)) true = .ok 1802 := by decide

/-- the registrar overrides the parameters: applied when allowed, refused when the session disabled
overrides (and then the session keeps what it registered) -/
example : (run genConsts toyStream 8160 .min {}
    [.setParams (.generic false), .prepare, .getParams, .unpack false (some (.generic true)), .getDstPort, .getParams]).2 =
    [.ok, .ok, .params (some (.generic false)), .ok, .port (.ok 1802), .params (some (.generic true))] := by decide
example : (run genConsts toyStream 8160 .min {}
    [.setParams (.generic false), .prepare, .getParams, .unpack true (some (.generic true)), .getDstPort, .getParams]).2 =
    [.ok, .ok, .params (some (.generic false)), .refused, .port (.ok 443), .params (some (.generic false))] := by decide

/-- prefix transport: an override installs the registrar's prefix for that session only; the next
`Prepare` starts from the configured prefix again -/
example : (run genConsts toyStream 8160 .prefix {}
    [.setParams (.prefix 0 false), .prepare, .getParams, .unpack false (some (.prefix 9 false)), .getDstPort, .wrap,
     .prepare, .getParams, .getDstPort, .wrap]).2 =
    [.ok, .ok, .params (some (.prefix 0 false)), .ok, .port (.ok 0), .sent 9,
     .ok, .params (some (.prefix 0 false)), .port (.ok 443), .sent 0] := by decide

example : OwnArg .prefix (.prefix 9 true) := trivial
example : Registered .min ⟨some (.generic false), some (.generic true), none, none, false⟩ (.generic true) :=
  ⟨rfl, fun h => by cases h⟩
end

end CJ.Props.C01
