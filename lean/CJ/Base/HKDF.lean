import CJ.Base.SHA256
/-!
# HKDF-SHA256 (RFC 5869) as `golang.org/x/crypto/hkdf` computes it (core Lean only, executable)

`hkdf.New(sha256.New, secret, salt, info)` is a reader over `T(1) ‖ T(2) ‖ … ‖ T(255)`,
`T(i) = HMAC(PRK, T(i-1) ‖ info ‖ byte i)`, `PRK = HMAC(salt or 32 zero bytes, secret)`; a read that
would go past `255 * 32 = 8160` bytes fails with "entropy limit reached" without consuming anything.
The models see such a reader as a total function `Nat → UInt8` (byte at stream position) plus the
limit `limit`.
-/
namespace CJ.HKDF
open CJ.SHA256

/-- total number of bytes an HKDF-SHA256 reader can deliver -/
def limit : Nat := 255 * 32

def extract (salt secret : ByteArray) : ByteArray :=
  hmac (if salt.size = 0 then ⟨Array.replicate 32 0⟩ else salt) secret

/-- `T(ctr)` from `T(ctr-1)` -/
def nextBlock (prk info prev : ByteArray) (ctr : Nat) : ByteArray :=
  hmac prk ((prev ++ info).push (UInt8.ofNat ctr))

/-- the first `n` blocks (32 n bytes) of the output stream -/
def okm (prk info : ByteArray) (n : Nat) : ByteArray := Id.run do
  let mut prev := ByteArray.empty
  let mut out := ByteArray.emptyWithCapacity (32 * n)
  for i in [0:n] do
    prev := nextBlock prk info prev (i + 1)
    out := out ++ prev
  return out

/-- Stream view: `pre` must be `okm prk info k` for some `k` (a cache of the first blocks); bytes
beyond the cache are recomputed from the start of the chain (rare: rejection sampling almost never
reads past the first blocks). Positions `≥ limit` are never read by the models. -/
def streamWith (pre prk info : ByteArray) : Nat → UInt8 := fun j =>
  if j < pre.size then pre.get! j else (okm prk info (j / 32 + 1)).get! j

/-- cache of the first 4 blocks, to be computed once per reader by the caller -/
def cacheOf (prk info : ByteArray) : ByteArray := okm prk info 4

/-- `hkdf.New(sha256.New, secret, salt, info)` as a byte stream -/
def reader (secret salt info : ByteArray) : Nat → UInt8 :=
  let prk := extract salt secret
  let pre := cacheOf prk info
  streamWith pre prk info

/-- first `n` bytes of `hkdf.New(sha256.New, secret, salt, info)` (for the differential test) -/
def firstBytes (secret salt info : ByteArray) (n : Nat) : ByteArray :=
  (okm (extract salt secret) info ((n + 31) / 32)).extract 0 n

end CJ.HKDF
