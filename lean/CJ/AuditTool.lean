import Lean
/-! `#audit_module M` prints, for every theorem declared in module `M`, the axioms it depends on:
`AUDIT <theorem> : <axiom> <axiom> …`.  Used by `/verif/check` to count obligations and to reject
anything outside `propext`, `Classical.choice`, `Quot.sound`. -/
open Lean Elab Command

elab "#audit_module " id:ident : command => do
  let env ← getEnv
  let modName := id.getId
  let some modIdx := env.getModuleIdx? modName
    | throwError "unknown module {modName}"
  let mut names : Array Name := #[]
  for (n, ci) in env.constants.toList do
    if env.getModuleIdxFor? n == some modIdx then
      match ci with
      | .thmInfo _ =>
        if !n.isInternal && !n.hasMacroScopes then names := names.push n
      | _ => pure ()
  let sorted := names.qsort (fun a b => a.toString < b.toString)
  for n in sorted do
    let axs ← Lean.collectAxioms n
    let axsS := axs.qsort (fun a b => a.toString < b.toString)
    logInfo m!"AUDIT {n} : {" ".intercalate (axsS.toList.map toString)}"
