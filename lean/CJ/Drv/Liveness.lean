import CJ.Model.LivenessX
import CJ.Drv.Util
/-! Driver for the liveness-cache model.
`cache|<durLive>|<capLive>|<durNonLive>|<capNonLive>|<op>;<op>;…`
  dur: `-` (empty string), `E` (ParseDuration error) or nanoseconds;
  op: `q,<now>,<addr>,<port>,<probe 0/1>,<error kind>` or `c,<now>`; error kind of the probe result: `-` nil, `n` NotLive,
  `w` wraps NotLive, `l` ErrLiveHost, `o` other, `c` context.Canceled, `d` context.DeadlineExceeded
  out: `c0`/`c1` (cached), `p<0/1><error kind>` (probed: the pair the tester returned), `clr`
→ `<construction>|<out>:<lenLive>,<lenNonLive>;…|L:<entries>/<lru order>|N:<entries>/<lru order>` -/
namespace CJ.Drv.Liveness
open CJ.Liveness CJ.Drv

def parseDur (s : String) : Option Dur :=
  if s == "-" then some .unset else if s == "E" then some .bad else (s.toInt?).map .ok

def parseErr : String → Option ProbeErr
  | "-" => some .nil | "n" => some .notLive | "w" => some .wrapsNotLive | "l" => some .liveHost
  | "o" => some .other | "c" => some .ctxCanceled | "d" => some .ctxDeadline
  | _ => none

def showErr : ProbeErr → String
  | .nil => "-" | .notLive => "n" | .wrapsNotLive => "w" | .liveHost => "l"
  | .other => "o" | .ctxCanceled => "c" | .ctxDeadline => "d"

def parseOp (s : String) : Option XOp :=
  match s.splitOn "," with
  | ["q", now, a, port, p, e] => do
    let _ ← port.toNat?          -- the port is not part of the cache key
    some (.query (← now.toInt?) a { live := ← parseBool p, err := ← parseErr e })
  | ["c", now] => do some (.clear (← now.toInt?))
  | _ => none

def showKind : Option Cache → String
  | none => "none"
  | some (.map _ _) => "map"
  | some (.lru _ _ l) => s!"lru{l.size}"

def showNew : Tester × Option InitErr → String
  | (t, e) =>
    let k := match t with
      | .uncached => "uncached"
      | .cached l n => s!"cached L={showKind l} N={showKind n}"
    match e with
    | none => k
    | some .live => k ++ " err=live"
    | some .nonLive => k ++ " err=nonlive"

def showLen : Option Cache → String
  | none => "-"
  | some c => toString c.len

def lens : Tester → String
  | .uncached => "-,-"
  | .cached l n => showLen l ++ "," ++ showLen n

def showOut : XOut → String
  | .cached true => "c1" | .cached false => "c0"
  | .probed r => (if r.live then "p1" else "p0") ++ showErr r.err
  | .cleared => "clr"

def dumpCache : Option Cache → String
  | none => "-"
  | some c =>
    let es := sortStrings (c.vmap.toList.map fun (k, t) => s!"{k}@{t}")
    let ord := match c with
      | .map _ _ => "-"
      | .lru _ _ l => joinWith "," l.items
    joinWith "," es ++ "/" ++ ord

def dump : Tester → String
  | .uncached => "L:-|N:-"
  | .cached l n => "L:" ++ dumpCache l ++ "|N:" ++ dumpCache n

def handle (args : List String) : Option String :=
  match args with
  | [dl, cl, dn, cn, ops] => do
    let cfg : Config := { durLive := ← parseDur dl, capLive := ← cl.toInt?, durNonLive := ← parseDur dn, capNonLive := ← cn.toInt? }
    let ops ← (fields ops ";").mapM parseOp
    let t0 := new cfg
    let (t, outs) := ops.foldl (fun (acc : Tester × List String) o =>
      let (t', out) := stepX acc.1 o
      (t', (showOut out ++ ":" ++ lens t') :: acc.2)) (t0.1, [])
    some (showNew t0 ++ "|" ++ joinWith ";" outs.reverse ++ "|" ++ dump t)
  | _ => none

end CJ.Drv.Liveness
