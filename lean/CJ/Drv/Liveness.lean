import CJ.Model.Liveness
import CJ.Drv.Util
/-! Driver for the liveness-cache model.
`cache|<durLive>|<capLive>|<durNonLive>|<capNonLive>|<op>;<op>;…`
  dur: `-` (empty string), `E` (ParseDuration error) or nanoseconds; op: `q,<now>,<addr>,<port>,<probe 0/1>` or `c,<now>`
→ `<construction>|<out>:<lenLive>,<lenNonLive>;…|L:<entries>/<lru order>|N:<entries>/<lru order>` -/
namespace CJ.Drv.Liveness
open CJ.Liveness CJ.Drv

def parseDur (s : String) : Option Dur :=
  if s == "-" then some .unset else if s == "E" then some .bad else (s.toInt?).map .ok

def parseOp (s : String) : Option Op :=
  match s.splitOn "," with
  | ["q", now, a, port, p] => do
    let _ ← port.toNat?          -- the port is not part of the cache key
    some (.query (← now.toInt?) a (← parseBool p))
  | ["c", now] => do some (.clear (← now.toInt?))
  | _ => none

def showKind : Option Cache → String
  | none => "none"
  | some (.map _ _) => "map"
  | some (.lru _ _ l) => s!"lru{l.size}"

def showNew : Tester × Option InitErr → String
  | (t, e) =>
    let k := match t with
      | .uncached => "uncached"
      | .cached l n => s!"cached L={showKind l} N={showKind n}"
    match e with
    | none => k
    | some .live => k ++ " err=live"
    | some .nonLive => k ++ " err=nonlive"

def showLen : Option Cache → String
  | none => "-"
  | some c => toString c.len

def lens : Tester → String
  | .uncached => "-,-"
  | .cached l n => showLen l ++ "," ++ showLen n

def showOut : Out → String
  | .cached true => "c1" | .cached false => "c0"
  | .probed true => "p1" | .probed false => "p0"
  | .cleared => "clr"

def dumpCache : Option Cache → String
  | none => "-"
  | some c =>
    let es := sortStrings (c.vmap.toList.map fun (k, t) => s!"{k}@{t}")
    let ord := match c with
      | .map _ _ => "-"
      | .lru _ _ l => joinWith "," l.items
    joinWith "," es ++ "/" ++ ord

def dump : Tester → String
  | .uncached => "L:-|N:-"
  | .cached l n => "L:" ++ dumpCache l ++ "|N:" ++ dumpCache n

def handle (args : List String) : Option String :=
  match args with
  | [dl, cl, dn, cn, ops] => do
    let cfg : Config := { durLive := ← parseDur dl, capLive := ← cl.toInt?, durNonLive := ← parseDur dn, capNonLive := ← cn.toInt? }
    let ops ← (fields ops ";").mapM parseOp
    let t0 := new cfg
    let (t, outs) := ops.foldl (fun (acc : Tester × List String) o =>
      let (t', out) := step acc.1 o
      (t', (showOut out ++ ":" ++ lens t') :: acc.2)) (t0.1, [])
    some (showNew t0 ++ "|" ++ joinWith ";" outs.reverse ++ "|" ++ dump t)
  | _ => none

end CJ.Drv.Liveness
