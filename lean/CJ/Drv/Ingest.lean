import CJ.Model.IngestText
import CJ.Drv.Util
/-! Driver for the ingest model (C07).

`c07|<cfg>|<wire>|<wire>|…` — the messages are ingested in order into one empty registry; the wire `D`
repeats the previous message.
* cfg: `<enableV4>,<enableV6>,<shareOverAPI>,<transports sep ' '>,<blocklist sep ' '>`; the blocklist is either all
  `hex/ones` (parsed networks) or all `t<hex of the UTF-8 text>` (the configured strings of `phantom_blocklist`, parsed by
  the model: `CJ.IngestText.phantomBlocklist`; a list the model refuses is answered `bad-op` — the station would not start)
* wire: `G` (undecodable) or
  `M,<payload>,<v4sup>,<v6sup>,<registrant>,<source>,<transport>,<libver>,<prescanned>,<rr>,<oracles>,<disableOverrides>,<rrOracles>` with
  registrant = `-` (absent) | `e` (present, empty) | hex; rr = `-` | `<dport>:<ipv4>:<ipv6>:<tparams 0/1>` (each `-` if absent);
  oracles = `<sel4>:<sel6>:<paramsOk>:<tpPort>:<proto>:<geoOk>:<covertOk>:<live>:<ident>` with sel = `-` | `<hex>/<rnd>`, live = `<0/1>` or
  `<0/1>.<error kind of the verdict>.<peer behaviour>` (see `Oracles.liveErr`, `Oracles.peer`)
  (paramsOk / tpPort: the transport's verdicts on the CLIENT's parameters); rrOracles = `<paramsOk>:<tpPort>`: its verdicts on
  the registrar's parameter override (the model decides which are in force).
Answer per message: `<w4>,<w6>;<parse>;<events>;<state4>,<state6>`. -/
namespace CJ.Drv.Ingest
open CJ.Ingest CJ.Drv
open CJ.Detector (Bytes)

def optBytes (s : String) : Option (Option Bytes) :=
  if s == "-" then some none
  else if s == "e" then some (some [])
  else (parseHex s).map some

def optNat (s : String) : Option (Option Nat) :=
  if s == "-" then some none else s.toNat?.map some

def parseSel (s : String) : Option (Option (Bytes × Bool)) :=
  if s == "-" then some none
  else match s.splitOn "/" with
    | [h, r] => do some (some (← parseHex h, ← parseBool r))
    | _ => none

def parseRR (s : String) : Option (Option RR) :=
  if s == "-" then some none
  else match s.splitOn ":" with
    | [p, a4, a6, tp] => do some (some { dstPort := ← optNat p, ipv4 := ← optNat a4, ipv6 := ← optBytes a6, tparams := ← parseBool tp })
    | _ => none

/-- the liveness verdict: `<live>` or `<live>.<error kind>.<peer behaviour>` -/
def parseVerdict (s : String) : Option (Bool × Nat × Nat) :=
  match s.splitOn "." with
  | [b] => do some (← parseBool b, 0, 0)
  | [b, e, p] => do some (← parseBool b, ← e.toNat?, ← p.toNat?)
  | _ => none

def parseOracles (s : String) : Option Oracles :=
  match s.splitOn ":" with
  | [s4, s6, pk, tp, pr, g, cv, lv, id] => do
    let (live, lerr, peer) ← parseVerdict lv
    some { sel4 := ← parseSel s4, sel6 := ← parseSel s6, paramsOk := ← parseBool pk, tpPort := ← optNat tp, proto := ← pr.toNat?,
           geoOk := ← parseBool g, covertOk := ← parseBool cv, live := live, ident := id, liveErr := lerr, peer := peer }
  | _ => none

def parseWire (s : String) : Option Wire :=
  match s.splitOn "," with
  | ["G"] => some .garbage
  | ["M", pl, v4, v6, rg, src, tr, lv, ps, rr, orc, dis, rro] => do
    let m : Msg := { payload := ← parseBool pl, v4Support := ← parseBool v4, v6Support := ← parseBool v6, registrant := ← optBytes rg,
                     source := ← src.toNat?, transport := ← tr.toNat?, libVer := ← lv.toNat?, prescanned := ← parseBool ps, rr := ← parseRR rr,
                     disableOverrides := ← parseBool dis }
    let ro : RROracles ← (match rro.splitOn ":" with
      | [pk, tp] => do some { paramsOk := ← parseBool pk, tpPort := ← optNat tp }
      | _ => none)
    some (.msg m (resolveOracles m (← parseOracles orc) ro))
  | _ => none

def parseNet (s : String) : Option (Bytes × Nat) :=
  match s.splitOn "/" with
  | [h, n] => do some (← parseHex h, ← n.toNat?)
  | _ => none

/-- `t<hex of the UTF-8 bytes>`: a configured string -/
def parseText (s : String) : Option String :=
  match s.toList with
  | 't' :: h => do
    let b ← parseHex (String.ofList h)
    String.fromUTF8? (ByteArray.mk b.toArray)
  | _ => none

def parseBlocklist (bl : String) : Option (List (Bytes × Nat)) :=
  let fs := fields bl " "
  if fs.any (·.startsWith "t") then do CJ.IngestText.phantomBlocklist (← fs.mapM parseText)
  else fs.mapM parseNet

def parseCfgFields : List String → Option Cfg
  | [e4, e6, sh, trs, bl] => do
    some { enableV4 := ← parseBool e4, enableV6 := ← parseBool e6, shareOverAPI := ← parseBool sh,
           transports := ← parseNatList trs " ", blocklist := ← parseBlocklist bl }
  | _ => none

def parseCfg (s : String) : Option Cfg := parseCfgFields (s.splitOn ",")

def showBuild : Except BuildErr Reg → String
  | .ok _ => "ok"
  | .error .newReg => "newreg"
  | .error .override => "override"
  | .error .registrant => "registrant"
  | .error .family => "family"
  | .error .geo => "geo"

def showEv : Ev → String
  | .probe ph port => s!"P:{phKey ph}:{port}"
  | .share sh => s!"S:{phKey sh.reg.phantom}:{sh.source}:{showBool sh.prescanned}"
  | .announce r => s!"A:{phKey r.phantom}:{r.port}:{r.proto}"

def showState (s : RSt) : Except BuildErr Reg → String
  | .error _ => "-"
  | .ok r =>
    match s.decoys[keyOf r]? with
    | some e => s!"{phKey r.phantom}:1:{showBool e.valid}:{e.regCount}:{showBool (connectable s r)}"
    | none => s!"{phKey r.phantom}:0:0:0:{showBool (connectable s r)}"

def answer (c : Cfg) (s : RSt) (w : Wire) : RSt × String :=
  let (s', evs) := ingestWire c s w
  match w with
  | .garbage => (s', "-,-;err;;-,-")
  | .msg m o =>
    let b4 := buildFam c m o .v4
    let b6 := buildFam c m o .v6
    let p := match parse c w with
      | none => "err"
      | some regs => s!"n={regs.length}"
    (s', s!"{showBuild b4},{showBuild b6};{p};{joinWith "," (evs.map showEv)};{showState s' b4},{showState s' b6}")

def handle (args : List String) : Option String :=
  match args with
  | cfg :: wires => do
    let c ← parseCfg cfg
    -- `D` repeats the previous message
    let ws ← wires.foldlM (fun (acc : List Wire) w =>
      if w == "D" then
        match acc.getLast? with
        | some prev => some (acc ++ [prev])
        | none => none
      else (parseWire w).map (fun x => acc ++ [x])) []
    let (_, outs) := ws.foldl (fun (acc : RSt × List String) w =>
      let (s', o) := answer c acc.1 w
      (s', o :: acc.2)) (CJ.Registry.init, [])
    some (joinWith "|" outs.reverse)
  | _ => none

end CJ.Drv.Ingest
