import CJ.Model.CovertLit
import CJ.Drv.Covert
/-! Driver for the address-literal models (`CJ.NetAddr`) and the admission of literals computed from text (`CJ.CovertLit`).

`netaddr|s|<hex of a string>` → `pa=…;pip=…;shp=…;u16=…;cidr=…;res=…`: `ParseAddr`, `ParseIP`, `SplitHostPort`,
  `ParseUint(·,10,16)`, `ParseCIDR`, the literal path of `ResolveIPAddr` on the same string
`netaddr|ip|<hex of 4 or 16 bytes>` → `str=<hex of IP.String()>;uns=<IsUnspecified>;back=<ParseIP(IP.String()) hex or E>`
`netaddr|con|<hex of a CIDR string>|<hex of 4 or 16 bytes>` → `E` | `0` | `1` (`ParseCIDR` then `Contains`)
`netaddr|jhp|<hosthex>|<porthex>` → `<hex of JoinHostPort>;<SplitHostPort of it: E | hosthex,porthex>`
`cadmit|<blocklist: hex,hex,… or ->|<allowlist>|<hex of the covert string>` → `badcidr` | `name` | `<outhex>|<lookup>` -/
namespace CJ.Drv.NetAddr
open CJ.NetAddr CJ.Drv CJ.Drv.Covert

def bytesHex (b : List Nat) : String := toHex (b.map fun n => UInt8.ofNat n)
def strHex (s : Str) : String := stringToHex (String.ofList s)
def hexStr (h : String) : Option Str := (hexToString h).map String.toList
def hexBytes (h : String) : Option (List Nat) := (parseHex h).map fun l => l.map UInt8.toNat

def showAddr : Option Addr → String
  | none => "E"
  | some (.v4 b) => "4," ++ bytesHex b
  | some (.v6 b z) => "6," ++ bytesHex b ++ "," ++ strHex z

def showSplit : Option (Str × Str) → String
  | none => "E"
  | some (h, p) => strHex h ++ "," ++ strHex p

def showNet : Option IPNet → String
  | none => "E"
  | some n => bytesHex n.ip ++ "/" ++ bytesHex n.mask

def showRes : LitResolved → String
  | .noIP => "N"
  | .addr ip z => "A," ++ bytesHex ip ++ "," ++ strHex z
  | .name => "name"

def handle (args : List String) : Option String :=
  match args with
  | ["s", h] => do
    let s ← hexStr h
    some ("pa=" ++ showAddr (parseAddr s) ++ ";pip=" ++ (match parseIP s with | some b => bytesHex b | none => "E") ++
      ";shp=" ++ showSplit (splitHostPort s) ++ ";u16=" ++ (match parseUint16 s with | some v => toString v | none => "E") ++
      ";cidr=" ++ showNet (parseCIDR s) ++ ";res=" ++ showRes (resolveLiteral s))
  | ["ip", h] => do
    let b ← hexBytes h
    if b.length != 4 && b.length != 16 then none else
    let t ← ipString b
    some ("str=" ++ strHex t ++ ";uns=" ++ showBool (isUnspecified b) ++ ";back=" ++
      (match parseIP t with | some x => bytesHex x | none => "E"))
  | ["con", c, h] => do
    let cs ← hexStr c
    let b ← hexBytes h
    if b.length != 4 && b.length != 16 then none else
    match parseCIDR cs with
    | none => some "E"
    | some n => some (showBool (contains n b))
  | ["jhp", hh, ph] => do
    let host ← hexStr hh
    let port ← hexStr ph
    let j := joinHostPort host port
    some (strHex j ++ ";" ++ showSplit (splitHostPort j))
  | _ => none

def parseList (s : String) : Option (List String) :=
  if s == "-" then some [] else (s.splitOn ",").mapM hexToString

def handleAdmit (args : List String) : Option String :=
  match args with
  | [bl, al, prov] => do
    let block ← parseList bl
    let allow ← parseList al
    let provided ← hexToString prov
    match CJ.CovertLit.mkPolicy (Pat := Unit) block allow [] with
    | none => some "badcidr"
    | some pol =>
      match CJ.CovertLit.admitLit (fun _ _ => false) pol provided with
      | none => some "name"
      | some r => some (stringToHex r.out ++ "|" ++ showBool r.lookup)
  | _ => none

end CJ.Drv.NetAddr
