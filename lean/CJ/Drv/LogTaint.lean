import CJ.Model.LogTaint
import CJ.Drv.Util
/-! Driver for the log-taint model.

An error is a comma-separated chain of wrappers ending in a leaf (every wrapper has one cause):
  `E:<n>:<hex msg>` errno · `S:<hex call>` *os.SyscallError · `O:<hex op>:<hex net>:<src>:<dst>` *net.OpError
  (`<src>`/`<dst>` = `-` or role letter `c|s|p|v|d` + hex of the address text) · `W:<hex txt>` fmt wrapper ·
  `eof` · `nc` net.ErrClosed · `oc` os.ErrClosed · `dl` os.ErrDeadlineExceeded · `X:<hex txt>` errors.New ·
  `N:<hex txt>:<0|1>` another net.Error with that Timeout() ·
  `XA:<hex pre>:<addr>:<hex post>` an opaque error whose text names an address (an operation error flattened with %v) ·
  `NA:<hex pre>:<addr>:<hex post>:<0|1>` a foreign net.Error whose text names an address (*net.AddrError) ·
  `F:<hex pre>:<hex post>` (a wrapper) the cause flattened into the text of a new error, `fmt.Errorf(pre + "%v" + post, cause)`:
  an opaque value whose text contains the cause's text

`gen|<app>|<err>`   → `nil` or hex of the text of generalizeErr(err)
`text|<err>`        → `<hex text>|is:<netClosed,eof,epipe,osClosed,reset,refused,aborted,unreach bits>|nt:<net.Error && Timeout()>`
`flow|<logClientIP>|<hex client>|<hex phantom>` → hex of the flow description -/
namespace CJ.Drv.LogTaint
open CJ.LogTaint CJ.Drv

def parseStr (h : String) : Option String := do
  let bs ← parseHex h
  String.fromUTF8? (ByteArray.mk bs.toArray)

def parseRole (c : Char) : Option Role :=
  if c == 'c' then some .client else if c == 's' then some .station else if c == 'p' then some .phantom
  else if c == 'v' then some .covert else if c == 'd' then some .decoy else none

def parseAddr (s : String) : Option (Option Addr) :=
  if s == "-" then some none else
  match s.toList with
  | c :: rest => do some (some ⟨← parseRole c, ← parseStr (String.ofList rest)⟩)
  | [] => none

def parseLeaf (s : String) : Option Err :=
  if s == "eof" then some .eof else if s == "nc" then some .netClosed else if s == "oc" then some .osClosed
  else if s == "dl" then some .deadline else
  match s.splitOn ":" with
  | ["E", n, m] => do some (.errno (← n.toNat?) (← parseStr m))
  | ["X", t] => do some (.other [.str (← parseStr t)])
  | ["N", t, b] => do some (.netErr [.str (← parseStr t)] (← parseBool b))
  | ["XA", pre, a, post] => do
    match ← parseAddr a with
    | some a => some (.other [.str (← parseStr pre), .addr a, .str (← parseStr post)])
    | none => none
  | ["NA", pre, a, post, b] => do
    match ← parseAddr a with
    | some a => some (.netErr [.str (← parseStr pre), .addr a, .str (← parseStr post)] (← parseBool b))
    | none => none
  | _ => none

def parseWrapper (s : String) : Option (Err → Err) :=
  match s.splitOn ":" with
  | ["S", c] => do let c ← parseStr c; some (.syscallErr c)
  | ["O", op, net, src, dst] => do
    let op ← parseStr op; let net ← parseStr net; let src ← parseAddr src; let dst ← parseAddr dst
    some (.opError op net src dst)
  | ["W", t] => do let t ← parseStr t; some (.wrapped [.str (t ++ ": ")])
  | ["F", pre, post] => do
    let pre ← parseStr pre; let post ← parseStr post
    some (fun inner => .other ([.str pre] ++ inner.text ++ [.str post]))
  | _ => none

def parseChain : List String → Option Err
  | [] => none
  | [l] => parseLeaf l
  | w :: rest => do
    let f ← parseWrapper w
    some (f (← parseChain rest))

def parseErr (s : String) : Option Err := parseChain (s.splitOn ",")

def textHex (ts : List Tok) : String := toHex (render ts).toUTF8.toList

def handleGen (args : List String) : Option String :=
  match args with
  | [app, e] => do
    let e ← parseErr e
    match generalize (← parseBool app) e with
    | none => some "nil"
    | some r => some (textHex r.text)
  | _ => none

def handleText (args : List String) : Option String :=
  match args with
  | [e] => do
    let e ← parseErr e
    let bits := [Target.netClosed, .eof, .epipe, .osClosed, .reset, .refused, .aborted, .unreach].map
      (fun t => showBool (e.is t))
    some (textHex e.text ++ "|is:" ++ String.join bits ++ "|nt:" ++ showBool e.netTimeout)
  | _ => none

def handleFlow (args : List String) : Option String :=
  match args with
  | [l, c, p] => do
    some (textHex (flowDescription (← parseBool l) ⟨.client, ← parseStr c⟩ ⟨.phantom, ← parseStr p⟩))
  | _ => none

end CJ.Drv.LogTaint
