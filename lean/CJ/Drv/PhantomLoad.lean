import CJ.Model.PhantomLoad
import CJ.Drv.Util
/-!
Driver for the subnet file's loop (`SubnetsFromTomlFile`, as repaired).

`load|<entries>|<gens>`  →  `err` | `tab <g>=<id|-> …`

* entries: the file's tables in the order of their key *text*, `<key>:<id>` joined by `,` (`-` = none);
  key = what `strconv.Atoi` says about the table's key: an integer, or `e` (error); id names the table's
  configuration
* gens: the generation numbers to read from the loaded table

Nothing is defaulted: an unparsable field gives `bad-op`.
-/
namespace CJ.Drv.PhantomLoad
open CJ.PhantomLoad CJ.Generations CJ.Drv

def parseKey (s : String) : Option (Option Int) :=
  if s == "e" then some none else (s.toInt?).map some

def parseEntry (s : String) : Option (Entry Nat) :=
  match s.splitOn ":" with
  | [k, i] => do some (← parseKey k, ← i.toNat?)
  | _ => none

def handle : List String → Option String
  | [es, gs] => do
    let entries ← if es == "-" then some [] else (es.splitOn ",").mapM parseEntry
    let gens ← parseNatList gs
    match loadStrict entries with
    | none => some "err"
    | some m =>
      some ("tab" ++ String.join (gens.map fun g =>
        s!" {g}=" ++ (match lookup m g with | some i => toString i | none => "-")))
  | _ => none

end CJ.Drv.PhantomLoad
