import CJ.Model.PrefixFile
import CJ.Drv.Registrar
/-! Driver for the prefix override file (C12).

`pfxov|<hex of the file text>|<ints>|<hex of the reader's bytes>|<cp>|<port0>`
* ints = the `strconv.ParseInt(·, 0, 0)` results of the lines that reach the conversions, groups separated by `;`,
  each `v:ok,v:ok,v:ok,v:ok` (`-` = no group)
* cp = the client's Prefix parameters `id:randomize` (each `-` if absent); port0 = `-` | the response's DstPort before
Answer: `perr malformed` | `perr parse` (`ParsePrefixes` fails) or
`n=<selectors>;sel=<- | id~prefixhex~port~flush | panic>;rest=<bytes left in the reader>;resp=<E | v4,v6,port,params>`
(`prefixes.selectPrefix` on the reader, then `PrefixOverride.Override` on a fresh reader with the same bytes). -/
namespace CJ.Drv.PrefixFile
open CJ.PrefixFile CJ.Registrar CJ.Drv

def parseTok (s : String) : Option IntTok :=
  match s.splitOn ":" with
  | [v, ok] => do some { val := ← v.toInt?, ok := ← parseBool ok }
  | _ => none

def parseInts (s : String) : Option (List (List IntTok)) :=
  if s == "-" then some [] else (s.splitOn ";").mapM fun g => (g.splitOn ",").mapM parseTok

def bytesOf (h : String) : Option (List Nat) := (parseHex h).map fun l => l.map (·.toNat)

def showFields (f : Fields) : String :=
  joinWith "~" [toString f.id, (let h := hexOf f.pbytes; if h == "" then "-" else h), toString f.port, toString f.flush]

def handle (args : List String) : Option String :=
  match args with
  | [text, ints, stream, cp, port0] => do
    let text ← bytesOf text
    let ints ← parseInts ints
    let s ← bytesOf stream
    let cp ← match cp.splitOn ":" with
      | [id, rnd] => do
        let i ← Registrar.optField id Registrar.parseInt
        let r ← Registrar.optField rnd parseBool
        some ({ prefixId := i, randomize := r } : PrefixParams)
      | _ => none
    let p0 ← Registrar.optField port0 String.toNat?
    match ← parsePrefixes text ints with
    | .error .malformed => some "perr malformed"
    | .error .parseError => some "perr parse"
    | .error .ints => none
    | .ok pfs =>
      let (sel, rest) := selectPrefix pfs s
      let selS := match sel with
        | .panic => "panic"
        | .res none => "-"
        | .res (some f) => showFields f
      let (r, _) := fileOverride pfs s cp { port := p0 }
      let rS := match r with | none => "E" | some r => Registrar.showResp r
      some s!"n={pfs.length};sel={selS};rest={rest.length};resp={rS}"
  | _ => none

end CJ.Drv.PrefixFile
