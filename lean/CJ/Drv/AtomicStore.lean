import CJ.Model.AtomicStore
import CJ.Drv.Util
/-! Driver for the atomic-store model.

`store|<rollback>|<target0>|<m0>|<m1>|<script>` →
`<calls>|<ret>|target=<same|new|other>|tmp=<absent|length>|mem=<old|new>`

* `target0`: content of the target file before the call (`absent`, or run-length coded bytes)
* `m0`, `m1`: marshalled bytes of the configuration in memory before the call / of the configuration
  the setter installs (`fail` when `proto.Marshal` rejects it)
* `script`: the environment's answers to the system calls, in order: `ok`, `fail`, `w<k>` (write
  accepted `k` bytes); the run stops (crash) when the script ends.
* run-length coding: segments joined by `+`; a segment is hex bytes or `<hex byte>*<count>`; `-` is empty. -/
namespace CJ.Drv.AtomicStore
open CJ.AtomicStore CJ.Drv

def parseSeg (s : String) : Option Bytes :=
  match s.splitOn "*" with
  | [h] => parseHex h
  | [h, n] => do
    let b ← parseHex h
    let n ← n.toNat?
    match b with
    | [x] => some (List.replicate n x)
    | _ => none
  | _ => none

def parseRle (s : String) : Option Bytes :=
  if s == "-" then some [] else
  if s.isEmpty then none else
  (s.splitOn "+").foldlM (fun acc seg => do some (acc ++ (← parseSeg seg))) []

def parseContent (s : String) : Option (Option Bytes) :=
  if s == "absent" || s == "fail" then some none else (parseRle s).map some

def parseRes (s : String) : Option Res :=
  if s == "ok" then some .ok
  else if s == "fail" then some .fail
  else if s.startsWith "w" then (s.drop 1).toString.toNat?.map .wrote
  else none

def showCall : Call → String
  | .openTmp => "open"
  | .write n => s!"write:{n}"
  | .close => "close"
  | .rename => "rename"

def targetPath : Path := "dir/ClientConf"
def tmpPath : Path := "dir/.ClientConf.tmp"

def handle (args : List String) : Option String :=
  match args with
  | [rb, t0, m0, m1, script] => do
    let rb ← parseBool rb
    let t0 ← parseContent t0
    let m0 ← parseContent m0
    let m1 ← parseContent m1
    let rs ← (fields script ",").mapM parseRes
    let marshal : Nat → Option Bytes := fun n => if n = 0 then m0 else m1
    let fs0 : FS := fun p => if p = targetPath then t0 else none
    let evs : List (Ev Nat) := .begin rb 1 tmpPath :: rs.map .sys
    let (s, calls) := trace marshal targetPath evs (init 0 fs0 targetPath)
    let ret := match s.task, s.lastErr with
      | some _, _ => "pending"
      | none, some true => "err"
      | none, some false => "ok"
      | none, none => "idle"
    let tgt := if s.fs targetPath == t0 then "same"
      else if m1.isSome && s.fs targetPath == m1 then "new" else "other"
    let tmp := match s.fs tmpPath with
      | none => "absent"
      | some c => toString c.length
    let mem := if s.mem = 0 then "old" else "new"
    let cs := if calls.isEmpty then "-" else joinWith "," (calls.map showCall)
    some s!"{cs}|{ret}|target={tgt}|tmp={tmp}|mem={mem}"
  | _ => none

/-- `crash|<target0>|<m1>|<script>`: a store killed after the answered calls of `script`; only what
survives the process is printed: `<calls>|target=<same|new|other>|tmp=<absent|length>` -/
def handleCrash (args : List String) : Option String :=
  match args with
  | [t0, m1, script] => do
    let full ← handle ["1", t0, "-", m1, script]
    match full.splitOn "|" with
    | [cs, _, tgt, tmp, _] => some s!"{cs}|{tgt}|{tmp}"
    | _ => none
  | _ => none

end CJ.Drv.AtomicStore
