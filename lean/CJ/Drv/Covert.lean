import CJ.Model.Covert
import CJ.Model.Config
import CJ.Drv.Util
/-! Driver for the covert-admission model.

**One registration (and optionally a re-sent one), then the dial**
`covert|<enableAllow>|<providedIsIP>|<split>|<domainHits>|<portOk>|<hostIsIP>|<resolved>|<blockHits>|<allowHits>|<dup>|<dial>|<dnsVisible>`
* split: `E` or `hosthex,porthex`; hits: string of 0/1 (`-` = empty)
* resolved: `E` (error), `N` (nil address) or `A,<ipNil 0/1>,<zonehex>,<IP.String() hex>,<IP.IsUnspecified() 0/1>`
* dup: `-`, or `D`: afterwards a second worker ingests another registration object for the same key
* dial: `-`, or `O,<hosthex>,<port>,<hostIsIP 0/1>,<unspecified 0/1>`: what `SplitHostPort` / `ParseIP` say about the string that
  `Proxy` hands to `net.Dial`
* dnsVisible: does one resolution of this host cause DNS traffic (the unit in which lookups are counted)
→ `<outhex>|<lookup>|<lookups>|<stored covert hex or ->|<valid>|<dial: - | L,<hosthex>,<port> | S,<port> (local system) | R | B>|<Covert of the object when it was marked valid and announced, hex, or ->`

**Several workers for one key, interleaved**
`csched|<enableAllow>|<schedule: worker digits>|<check order: worker digits>|W|<the 8 per-worker fields>|W|…`
→ `<stored covert hex or ->|<valid>|<index of the worker whose object is stored or ->`

**One covert string after a sequence of configuration reloads**
`creload|<event>;<event>;…|P|<enableAllow>|<the 8 per-worker fields>|P|…`
* event: `<conf o/e/p>,<sel o/e>,<geo o/m/e>` — what the three loading steps of one SIGHUP answered
* one `P` group per configuration, start-up first (index 0), then one per reload: the answers of the library
  about the covert string under the lists of *that* configuration (groups of configurations that did not load
  are carried but never consulted)
→ `p<i>|<outhex>|<lookup>`: index of the configuration whose policy the reload model (`CJ.Config.reloads`) leaves
  in force, and the admission decision under that policy; `panic` if a configuration load panicked -/
namespace CJ.Drv.Covert
open CJ.Covert CJ.Drv

def parseBits (s : String) : Option (List Bool) :=
  if s == "-" then some [] else s.toList.mapM fun c => if c == '1' then some true else if c == '0' then some false else none

def hexToString (s : String) : Option String := do
  let bs ← parseHex s
  String.fromUTF8? (ByteArray.mk bs.toArray)

def stringToHex (s : String) : String := toHex s.toUTF8.toList

/-- a resolution, the `IP.String()` text of its address and its `IsUnspecified()` -/
def parseResolved (s : String) (ip : Nat) : Option (Resolved Nat × String × Bool) :=
  match s.splitOn "," with
  | ["E"] => some (.err, "", false)
  | ["N"] => some (.nilAddr, "", false)
  | ["A", n, z, t, u] => do
    let isNil ← parseBool n
    some (.addr (if isNil then none else some ip) (← hexToString z), ← hexToString t, ← parseBool u)
  | _ => none

/-- the answers about one worker's covert string -/
structure WorkerIn where
  ans : Answers
  domainHits : List Bool
  blockHits : List Bool
  allowHits : List Bool
  res : Resolved Nat
  text : String
  unspec : Bool

def parseWorker (idx : Nat) : List String → Option WorkerIn
  | [pip, split, dh, pok, hip, res, bh, ah] => do
    let sp ← (if split == "E" then some none else
      match split.splitOn "," with
      | [h, p] => do some (some (h, ← hexToString p))     -- the host stays opaque (hex text)
      | _ => none)
    let (r, text, unspec) ← parseResolved res idx
    some { ans := { providedIsIP := ← parseBool pip, split := sp, portOk := ← parseBool pok, hostIsIP := ← parseBool hip },
           domainHits := ← parseBits dh, blockHits := ← parseBits bh, allowHits := ← parseBits ah, res := r, text := text, unspec := unspec }
  | _ => none

/-- environment and policy of a run: networks 0..nb-1 = blocklist, nb.. = allowlist; an "IP" is the index
of the worker whose resolution produced it -/
def mkEnv (ws : List WorkerIn) (ea : Bool) : Option (Env Nat Nat Nat × Policy Nat Nat) :=
  match ws with
  | [] => none
  | w0 :: _ =>
    let nb := w0.blockHits.length
    let na := w0.allowHits.length
    let nd := w0.domainHits.length
    if ws.any (fun w => w.blockHits.length != nb || w.allowHits.length != na || w.domainHits.length != nd) then none else
    let hostOf (w : WorkerIn) : String := match w.ans.split with | some (h, _) => h | none => ""
    some ({ contains := fun n ip =>
              match ws[ip]? with
              | some w => if n < nb then w.blockHits.getD n false else w.allowHits.getD (n - nb) false
              | none => false
            matchString := fun p host =>
              match ws.find? (fun w => hostOf w == host) with
              | some w => w.domainHits.getD p false
              | none => false
            ipText := fun ip => match ws[ip]? with | some w => w.text | none => ""
            unspecified := fun ip => match ws[ip]? with | some w => w.unspec | none => false },
          { block := List.range nb, allow := (List.range na).map (· + nb), enableAllow := ea, domains := List.range nd })

def showStore (w : World) : String :=
  match w.store with
  | some e => (if e.valid then stringToHex (w.covertOf e.ptr) else "-") ++ "|" ++ showBool e.valid
  | none => "-|0"

def parseDigits (s : String) : Option (List Nat) :=
  if s == "-" then some [] else s.toList.mapM fun c => if c.isDigit then some (c.toNat - '0'.toNat) else none

def handle (args : List String) : Option String :=
  match args with
  | [ea, pip, split, dh, pok, hip, res, bh, ah, dup, dial, vis] => do
    let w0 ← parseWorker 0 [pip, split, dh, pok, hip, res, bh, ah]
    let (env, pol) ← mkEnv [w0] (← parseBool ea)
    let visible ← parseBool vis
    let dupN ← (if dup == "-" then some 0 else if dup == "D" then some 1 else none)
    -- one resolver answer for every lookup: what the library answered for this host
    let rs : Resolver Nat := fun _ => w0.res
    let inp : Inputs := { ans := fun _ => w0.ans, passes := fun _ => true }
    let r := parseOrResolve env pol w0.ans rs 0
    let wA := runSched env pol inp rs (World.init (fun _ => "<provided>") 0) [0, 0, 0, 0]
    let wB := if dupN == 1 then runSched env pol inp rs wA [1, 1, 1, 1] else wA
    let lookups := if visible then wA.cursor else 0
    let dialed ← (match wB.dialString with
      | none => some "-"
      | some s =>
        if dial == "-" then some "-" else
        match dial.splitOn "," with
        | ["O", h, p, isIP, un] => do
          let lit ← parseBool isIP
          let unspec ← parseBool un
          let host := h
          let L : DialLib Nat := { splitHostPort := fun x => if x == s then some (host, p) else none,
                                   parseIP := fun _ => if lit then some 0 else none,
                                   unspecified := fun _ => unspec }
          -- at dial time the resolver answers something else: an error stands for "anything"
          match (netDial L s (fun _ => .err) wB.cursor).1 with
          | .literal _ port => some ("L," ++ host ++ "," ++ port)
          | .localSystem port => some ("S," ++ port)
          | .resolved _ _ => some "R"
          | .bad => some "B"
        | _ => none)
    -- the Covert field of the object at the moment it is marked valid and announced (`register`): by
    -- `valid_implies_checked_covert` it is what the entry holds from then on
    let announced := match wA.store with
      | some e => if e.valid then stringToHex (wA.covertOf e.ptr) else "-"
      | none => "-"
    some (stringToHex r.out ++ "|" ++ showBool r.lookup ++ "|" ++ toString lookups ++ "|" ++ showStore wB ++ "|" ++ dialed ++ "|" ++ announced)
  | _ => none

def handleSched (args : List String) : Option String :=
  match args with
  | ea :: sched :: order :: rest => do
    -- workers are introduced by a "W" field
    let groups := (rest.splitBy (fun _ b => b != "W")).map (·.drop 1)
    let ws ← (groups.zipIdx).mapM (fun (g, i) => parseWorker i g)
    let (env, pol) ← mkEnv ws (← parseBool ea)
    let sch ← parseDigits sched
    let ord ← parseDigits order
    if sch.any (· ≥ ws.length) || ord.any (· ≥ ws.length) then none else
    let rs : Resolver Nat := fun n => match ord[n]? with
      | some i => (match ws[i]? with | some w => w.res | none => .err)
      | none => .err
    let inp : Inputs := { ans := fun i => match ws[i]? with | some w => w.ans | none => ⟨true, none, false, false⟩,
                          passes := fun _ => true }
    let w := runSched env pol inp rs (World.init (fun i => "<raw " ++ toString i ++ ">") 0) sch
    let ptr := match w.store with | some e => toString e.ptr | none => "-"
    some (showStore w ++ "|" ++ ptr)
  | _ => none

/-! **A registration of a connecting transport (dial-back)**
`cdialback|<enableAllow>|<the 8 per-worker fields>|<connecting 0/1>`
→ `<outhex>|<valid>|<- | D,<hex of the Covert field the dial-back goroutine finds>>`: one worker ingests its
registration; `CJ.Covert.launched` says whether the last segment launches a dial-back for its object -/
def handleDialback (args : List String) : Option String :=
  match args with
  | [ea, pip, split, dh, pok, hip, res, bh, ah, conn] => do
    let w0 ← parseWorker 0 [pip, split, dh, pok, hip, res, bh, ah]
    let (env, pol) ← mkEnv [w0] (← parseBool ea)
    let connecting ← parseBool conn
    let rs : Resolver Nat := fun _ => w0.res
    let inp : Inputs := { ans := fun _ => w0.ans, passes := fun _ => true }
    let r := parseOrResolve env pol w0.ans rs 0
    let w := World.init (fun _ => "<provided>") 0
    let sched := [0, 0, 0, 0]
    let wA := runSched env pol inp rs w sched
    let l := launched (fun _ => connecting) env pol inp rs w sched
    let valid := match wA.store with | some e => e.valid | none => false
    let d := if l.contains 0 then "D," ++ stringToHex (wA.covertOf 0) else "-"
    some (stringToHex r.out ++ "|" ++ showBool valid ++ "|" ++ d)
  | _ => none

def parseReloadEvent (i : Nat) (s : String) : Option (CJ.Config.Outcome Nat × Option Nat × CJ.Config.GeoLoad Nat) :=
  match s.splitOn "," with
  | [c, sl, g] => do
    let conf ← (if c == "o" then some (CJ.Config.Outcome.ok i) else if c == "e" then some .err else if c == "p" then some .panic else none)
    let sel ← (if sl == "o" then some (some i) else if sl == "e" then some none else none)
    let geo ← (if g == "o" then some (CJ.Config.GeoLoad.ok i) else if g == "m" then some (.missing i) else if g == "e" then some .err else none)
    some (conf, sel, geo)
  | _ => none

def handleReload (args : List String) : Option String :=
  match args with
  | evs :: rest => do
    let evs ← ((fields evs ";").zipIdx.mapM fun (s, i) => parseReloadEvent (i + 1) s)
    let groups := (rest.splitBy (fun _ b => b != "P")).map (·.drop 1)
    if groups.length != evs.length + 1 then none else
    -- every group must be well-formed, consulted or not
    let parsed ← groups.mapM fun g =>
      match g with
      | ea :: f => do
        let w0 ← parseWorker 0 f
        let (env, pol) ← mkEnv [w0] (← parseBool ea)
        some (env, pol, w0)
      | [] => none
    match CJ.Config.reloads (⟨0, 0, 0⟩ : CJ.Config.Station Nat Nat Nat) evs with
    | .ok st => do
      let (env, pol, w0) ← parsed[st.policy]?
      let r := parseOrResolve env pol w0.ans (fun _ => w0.res) 0
      some s!"p{st.policy}|{stringToHex r.out}|{showBool r.lookup}"
    | _ => some "panic"
  | _ => none

end CJ.Drv.Covert
