import CJ.Model.Covert
import CJ.Drv.Util
/-! Driver for the covert-admission model.
`covert|<enableAllow>|<providedIsIP>|<split: E or hosthex,porthex>|<domainHits>|<portOk>|<hostIsIP>|<resolved>|<blockHits>|<allowHits>`
  resolved: `E` (error), `N` (nil address) or `A,<ipNil 0/1>,<zonehex>,<texthex>`; hits: string of 0/1 (`-` = empty)
→ `<outhex>|<lookup>|<stored covert hex or ->|<dialed hex or ->` -/
namespace CJ.Drv.Covert
open CJ.Covert CJ.Drv

def parseBits (s : String) : Option (List Bool) :=
  if s == "-" then some [] else s.toList.mapM fun c => if c == '1' then some true else if c == '0' then some false else none

def hexToString (s : String) : Option String := do
  let bs ← parseHex s
  String.fromUTF8? (ByteArray.mk bs.toArray)

def stringToHex (s : String) : String := toHex s.toUTF8.toList

def parseResolved (s : String) : Option (Resolved Unit) :=
  match s.splitOn "," with
  | ["E"] => some .err
  | ["N"] => some .nilAddr
  | ["A", n, z, t] => do
    let isNil ← parseBool n
    some (.addr (if isNil then none else some ()) (← hexToString z) (← hexToString t))
  | _ => none

def handle (args : List String) : Option String :=
  match args with
  | [ea, pip, split, dh, pok, hip, res, bh, ah] => do
    let domainHits ← parseBits dh
    let blockHits ← parseBits bh
    let allowHits ← parseBits ah
    let nb := blockHits.length
    -- nets: 0..nb-1 = blocklist, nb.. = allowlist; patterns: indexes into domainHits
    let env : Env Nat Nat Unit := {
      contains := fun n _ => if n < nb then blockHits.getD n false else allowHits.getD (n - nb) false
      matchString := fun p _ => domainHits.getD p false }
    let pol : Policy Nat Nat := {
      block := List.range nb, allow := (List.range allowHits.length).map (· + nb),
      enableAllow := ← parseBool ea, domains := List.range domainHits.length }
    let sp ← (if split == "E" then some none else
      match split.splitOn "," with
      | [h, p] => do some (some (h, ← hexToString p))     -- the host stays opaque (hex text)
      | _ => none)
    let a : Answers Unit := { providedIsIP := ← parseBool pip, split := sp, portOk := ← parseBool pok,
                              hostIsIP := ← parseBool hip, resolved := ← parseResolved res }
    let r := parseOrResolve env pol a
    let stored := ingestCovert env pol { covert := "<provided>", valid := false } a
    let (st, dial) := match stored with
      | none => ("-", "-")
      | some reg => (stringToHex reg.covert, stringToHex (proxyDial reg))
    some (stringToHex r.out ++ "|" ++ showBool r.lookup ++ "|" ++ st ++ "|" ++ dial)
  | _ => none

end CJ.Drv.Covert
