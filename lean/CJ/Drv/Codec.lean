import CJ.Model.Codec
import CJ.Model.Responder
import CJ.Drv.Util
/-! Driver for the codec models (C15, and the parsers of C11).

`codec|<op>|<field>|…` → `ok …` / `err <kind>` / `panic <site>` / `hang`.
Bytes are hex (`-` = empty); a name is its labels in hex joined by `.` (`@` = the root name, a label
`-` is the empty label); a question is `name/type/class`, a record `name/type/class/ttl/data`; lists are
joined by `;` (empty field = empty list). Primitive results for the obfuscators come as a table
`key=value;…` computed by the harness with the real libraries.

The DNS channel: `query|enc|dom|id` (`send` from the base32 text on) → `ok <wire hex>` / `err …`;
`respfor|hd|q|an|ns|ar|dom|maxudp|tbl` (`responseFor`; `tbl` = `b32:<text hex>=<decoded hex | FAIL>;…`,
a text that is not in the table does not decode) → `nil` or `resp <message> <payload hex | none>`;
`udpresp|hd|q|an|ns|ar|payload` (`dnsRespToUDPResp`) → `ok <wire hex>` / `err …`;
`resppayload|buf|dom` (`recvLoop` + `dnsResponsePayload`) → `payload <hex>` (`payload -` for a nil or
empty payload and for a datagram that does not parse);
`lenient|buf` → the message `MessageFromWireFormat` returns next to its error, printed like `parse`;
`dgram|buf|dom|maxudp|tbl` (the handler goroutine of `RecvAndRespond` on the datagram `buf`; `tbl` holds the
base32 entries as for `respfor` and `craft:<framed request hex>=<craftResponse result hex | FAIL>`; a
request that is not in the table fails) → `none` (nothing is written) / `sent <wire hex>` / `panic …`;
`recvloop|perIter|addr:hex,…|steps` (the receive loop on the queued datagrams under the schedule
`steps` = `r` / `h<i>` separated by blanks, handlers echo what they read) →
`sent addr:hex,… seen hex,… left <queued>/<pending>` (sent sorted by address, seen sorted);
`anyinto|src|value|expected|prior|decoded` (`UnmarshalAnypbTo` into a destination that holds the fields
`prior`; fields are `number:hex` joined by `,`; `decoded` = the fields `value` carries, or `FAIL`) →
`ok nil` / `ok <fields>` / `err …`. -/
namespace CJ.Drv.Codec
open CJ.Codec CJ.Drv

def showErr : Err → String
  | .invalidLength => "invalidLength" | .tooLong => "tooLong" | .eof => "eof"
  | .zeroLabel => "zeroLabel" | .labelTooLong => "labelTooLong" | .nameTooLong => "nameTooLong"
  | .reservedLabel => "reservedLabel" | .tooManyPointers => "tooManyPointers" | .trailing => "trailing"
  | .overflow => "overflow" | .keyLen => "keyLen" | .crypto => "crypto" | .evenLength => "evenLength"
  | .emptyTag => "emptyTag" | .noEntropy => "noEntropy" | .wrongType => "wrongType" | .unmarshal => "unmarshal"

def showOutcome {α} (f : α → String) : Outcome α → String
  | .ok a => "ok " ++ f a
  | .err e => "err " ++ showErr e
  | .panic s => "panic " ++ s
  | .hang => "hang"

def parseName (s : String) : Option Name :=
  if s == "@" then some [] else (s.splitOn ".").mapM parseHex

def showName (n : Name) : String := if n.isEmpty then "@" else ".".intercalate (n.map toHex)

def parseU16 (s : String) : Option UInt16 := do
  let n ← s.toNat?
  if n < 65536 then some (UInt16.ofNat n) else none

def parseU32 (s : String) : Option UInt32 := do
  let n ← s.toNat?
  if n < 4294967296 then some (UInt32.ofNat n) else none

def parseQuestion (s : String) : Option Question :=
  match s.splitOn "/" with
  | [n, t, c] => do some ⟨← parseName n, ← parseU16 t, ← parseU16 c⟩
  | _ => none

def parseRR (s : String) : Option RR :=
  match s.splitOn "/" with
  | [n, t, c, ttl, d] => do some ⟨← parseName n, ← parseU16 t, ← parseU16 c, ← parseU32 ttl, ← parseHex d⟩
  | _ => none

def showQuestion (q : Question) : String := s!"{showName q.name}/{q.qtype.toNat}/{q.qclass.toNat}"
def showRR (r : RR) : String := s!"{showName r.name}/{r.rtype.toNat}/{r.rclass.toNat}/{r.ttl.toNat}/{toHex r.data}"

def showMessage (m : Message) : String :=
  s!"{m.id.toNat},{m.flags.toNat}|" ++ ";".intercalate (m.question.map showQuestion) ++ "|" ++
  ";".intercalate (m.answer.map showRR) ++ "|" ++ ";".intercalate (m.authority.map showRR) ++ "|" ++
  ";".intercalate (m.additional.map showRR)

def parseMessage (hd q an ns ar : String) : Option Message :=
  match hd.splitOn "," with
  | [id, fl] => do
    some ⟨← parseU16 id, ← parseU16 fl, ← (fields q ";").mapM parseQuestion, ← (fields an ";").mapM parseRR,
      ← (fields ns ";").mapM parseRR, ← (fields ar ";").mapM parseRR⟩
  | _ => none

/-! primitives from a table -/

abbrev Table := List (String × String)

def parseTable (s : String) : Option Table :=
  (fields s ";").mapM fun kv => match kv.splitOn "=" with
    | [k, v] => some (k, v)
    | _ => none

def look (t : Table) (k : String) : Option Bytes := do
  let v ← t.lookup k
  if v == "FAIL" then none else parseHex v

def tableCrypto (t : Table) : Crypto where
  Priv := Bytes
  Pub := Bytes
  dh := fun a b => look t s!"dh:{toHex a}:{toHex b}"
  reprOf := fun a => look t s!"repr:{toHex a}"
  pubOfRepr := fun r => r
  hash := fun s => (look t s!"hash:{toHex s}").getD []
  ctr := fun k iv x => look t s!"ctr:{toHex k}:{toHex iv}:{toHex x}"
  gcmSeal := fun k iv x => look t s!"seal:{toHex k}:{toHex iv}:{toHex x}"
  gcmOpen := fun k iv x => look t s!"open:{toHex k}:{toHex iv}:{toHex x}"

def parseByte (s : String) : Option UInt8 := do
  let n ← s.toNat?
  if n < 256 then some (UInt8.ofNat n) else none

def parseUrl (s : String) : Option (Option Url) :=
  if s == "NIL" then some none else if s == "-" then some (some []) else some (some s.toList)

def handle (args : List String) : Option String :=
  match args with
  | ["addreq", p] => do some (showOutcome toHex (addRequestFormat (← parseHex p)))
  | ["rmreq", p] => do some (showOutcome toHex (removeRequestFormat (← parseHex p)))
  | ["addresp", p] => do some (showOutcome toHex (addResponseFormat (← parseHex p)))
  | ["rmresp", p] => do some (showOutcome toHex (removeResponseFormat (← parseHex p)))
  | ["enctxt", p] => do some ("ok " ++ toHex (encodeTXT (← parseHex p)))
  | ["dectxt", p] => do some (showOutcome toHex (decodeTXT (← parseHex p)))
  | ["newname", n] => do some (showOutcome showName (newName (← parseName n)))
  | ["wire", hd, q, an, ns, ar] => do some (showOutcome toHex (wireFormat (← parseMessage hd q an ns ar)))
  | ["parse", p] => do some (showOutcome showMessage (messageFromWireFormat (← parseHex p)))
  | ["readname", p, pos] => do
    some (showOutcome (fun (r : Name × Nat) => s!"{showName r.1} {r.2}") (readName (← parseHex p) (← pos.toNat?)))
  | ["sendname", enc, dom] => do some (showOutcome showName (sendName (← parseHex enc) (← parseName dom)))
  | ["recvenc", n, dom] => do
    some (match recvEncoded (← parseName n) (← parseName dom) with
      | some e => "ok " ++ toHex e
      | none => "none")
  | ["query", enc, dom, id] => do
    some (showOutcome toHex (buildQuery (← parseHex enc) (← parseName dom) (← parseU16 id)))
  | ["respfor", hd, q, an, ns, ar, dom, maxudp, tbl] => do
    -- tbl: `b32:<text hex>=<decoded hex | FAIL>;…` (the empty text has the key `b32:-`)
    let t ← parseTable tbl
    let dec : Bytes → Option Bytes := fun text => look t s!"b32:{toHex text}"
    some (match responseFor (← parseMessage hd q an ns ar) (← parseName dom) (← maxudp.toNat?) dec with
      | none => "nil"
      | some (resp, payload) =>
        "resp " ++ showMessage resp ++ " " ++ (match payload with | none => "none" | some b => toHex b))
  | ["udpresp", hd, q, an, ns, ar, payload] => do
    some (showOutcome toHex (udpResponse (← parseMessage hd q an ns ar) (← parseHex payload)))
  | ["resppayload", buf, dom] => do
    -- a nil payload and an empty one are the same packet for the requester's queue
    some ("payload " ++ toHex ((responsePayload (← parseHex buf) (← parseName dom)).getD []))
  | ["lenient", buf] => do some (showMessage (lenientParse (← parseHex buf)))
  | ["dgram", buf, dom, maxudp, tbl] => do
    let t ← parseTable tbl
    let dec : Bytes → Option Bytes := fun text => look t s!"b32:{toHex text}"
    let craft : Bytes → Option Bytes := fun f => look t s!"craft:{toHex f}"
    some (match handleDatagram (← parseName dom) (← maxudp.toNat?) dec craft (← parseHex buf) with
      | .ok none => "none"
      | .ok (some d) => "sent " ++ toHex d
      | .err e => "err " ++ showErr e
      | .panic s => "panic " ++ s
      | .hang => "hang")
  | ["recvloop", perIter, dgrams, steps] => do
    let per ← parseBool perIter
    let q ← (fields dgrams ",").mapM fun d => match d.splitOn ":" with
      | [a, x] => do some (⟨← a.toNat?, ← parseHex x⟩ : Dgram)
      | _ => none
    let sched ← (fields steps " ").mapM fun t =>
      if t == "r" then some Step.recv
      else if t.startsWith "h" then (t.drop 1).toNat?.map Step.run
      else none
    let s := Loop.run per (fun b => (some b, some b)) (Loop.init q) sched
    let sent := (s.sent.toArray.qsort (fun a b => a.1 < b.1)).toList.map fun (a, d) => s!"{a}:{toHex d}"
    some ("sent " ++ ",".intercalate sent ++ " seen " ++ ",".intercalate (sortStrings (s.seen.map toHex)) ++
      s!" left {s.queue.length}/{s.pending.length}")
  | ["obfs", "ctr-obf", draws, rb, pt, publen, pub, tbl] => do
    let C := tableCrypto (← parseTable tbl)
    some (showOutcome toHex (ctrObfuscate C (← (fields draws ",").mapM parseHex) (← parseByte rb) (← parseHex pt)
      (← publen.toNat?) (← parseHex pub)))
  | ["obfs", "ctr-rev", ct, priv, tbl] => do
    let C := tableCrypto (← parseTable tbl)
    some (showOutcome toHex (ctrReveal C (← parseHex ct) (← parseHex priv)))
  | ["obfs", "gcm-obf", draws, rb, pt, publen, pub, tbl] => do
    let C := tableCrypto (← parseTable tbl)
    some (showOutcome toHex (gcmObfuscate C (← (fields draws ",").mapM parseHex) (← parseByte rb) (← parseHex pt)
      (← publen.toNat?) (← parseHex pub)))
  | ["obfs", "gcm-rev", ct, priv, tbl] => do
    let C := tableCrypto (← parseTable tbl)
    some (showOutcome toHex (gcmReveal C (← parseHex ct) (← parseHex priv)))
  | ["obfs", "xor-obf", pad, pt] => do some (showOutcome toHex (xorObfuscate (← parseHex pad) (← parseHex pt)))
  | ["obfs", "xor-rev", ct] => do some (showOutcome toHex (xorReveal (← parseHex ct)))
  | ["obfs", "nil-obf", pt] => do some (showOutcome toHex (nilObfuscate (← parseHex pt)))
  | ["obfs", "nil-rev", ct] => do some (showOutcome toHex (nilReveal (← parseHex ct)))
  | ["anyinto", src, value, expected, prior, decoded] => do
    let parseFields (t : String) : Option Fields := (fields t ",").mapM fun f => match f.splitOn ":" with
      | [n, x] => do some (← n.toNat?, ← parseHex x)
      | _ => none
    let srcUrl ← parseUrl src
    let exp ← parseUrl expected
    let v ← parseHex value
    let pr ← parseFields prior
    let dec : Option Fields ← if decoded == "FAIL" then some none else (parseFields decoded).map some
    let showFields (m : Fields) : String :=
      if m.isEmpty then "-" else ",".intercalate (m.map fun (n, x) => s!"{n}:{toHex x}")
    some (match unmarshalAnyInto false (fun _ b => if b == v then dec else none) exp (srcUrl.map fun u => ⟨u, v⟩) pr with
      | .ok none => "ok nil"
      | .ok (some m) => "ok " ++ showFields m
      | .err e => "err " ++ showErr e
      | .panic s => "panic " ++ s
      | .hang => "hang")
  | ["any", src, value, expected, canUnmarshal] => do
    -- src: NIL = no Any at all, otherwise its type URL; expected: NIL = nil destination
    let srcUrl ← parseUrl src
    let exp ← parseUrl expected
    let v ← parseHex value
    let ok ← parseBool canUnmarshal
    let r := unmarshalAnyTo (M := Unit) (fun _ _ => if ok then some () else none) exp (srcUrl.map fun u => ⟨u, v⟩)
    some (match r with
      | .ok none => "ok nil"
      | .ok (some _) => "ok set"
      | .err e => "err " ++ showErr e
      | .panic s => "panic " ++ s
      | .hang => "hang")
  | _ => none

end CJ.Drv.Codec
