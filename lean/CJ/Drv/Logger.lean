import CJ.Model.Logger
import CJ.Model.Startup
import CJ.Model.Fmt
import CJ.Drv.Util
/-! Line protocol for the logger model: `logger|run|op;op;…` answers the sink (hex) or `nil-logger`;
`logger|parse|hex` answers the level or `err`; `logger|emits|level|meth` answers 0/1; `logger|fmt|hex|kinds` answers D/N per argument (CJ.Fmt.shows);
`logger|lrparse|hex` logrus' ParseLevel; `logger|startup|app\|reg|hex` the outcome of main's level lines. -/
namespace CJ.Drv.Logger
open CJ.Logger

def parseMeth : String → Option Meth
  | "trace" => some .trace | "debug" => some .debug | "warn" => some .warn
  | "error" => some .error | "info" => some .info | "print" => some .print
  | _ => none

def parseForm : String → Option Form
  | "p" => some .plain | "l" => some .ln | "f" => some .f
  | _ => none

def parseOp (s : String) : Option (Op UInt8) :=
  match s.splitOn "," with
  | ["G", l] => do some (.setLevel (← l.toInt?))
  | ["N", p] => do some (.new (← parseHex p))
  | ["L", i, l] => do some (.lSetLevel (← i.toNat?) (← l.toInt?))
  | ["P", i, p] => do some (.lSetPrefix (← i.toNat?) (← parseHex p))
  | ["S", p] => do some (.setStdPrefix (← parseHex p))
  | ["C", t, m, f, msg] => do
      let tgt ← if t == "p" then some none else (t.toNat?).map some
      some (.call tgt (← parseMeth m) (← parseForm f) (← parseHex msg))
  | _ => none

def handle : List String → Option String
  | ["run", ops] => do
      let ops ← (fields ops ";").mapM parseOp
      match run (10 : UInt8) ops {} with
      | none => some "nil-logger"
      | some s => some (toHex s.sink)
  | ["parse", h] => do
      match parseLevel (← parseHex h) with
      | none => some "err"
      | some l => some (toString l)
  | ["lrparse", h] => do
      match CJ.Startup.parseLogrus (← parseHex h) with
      | none => some "err"
      | some l => some (toString l)
  | ["fmt", h, kinds] => do
      let ks ← (if kinds == "-" then [] else kinds.toList).mapM fun c =>
        if c == 's' || c == 'e' || c == 'g' then some CJ.Fmt.Kind.str else if c == 'i' then some CJ.Fmt.Kind.int else none
      match CJ.Fmt.shows ((← parseHex h).map (·.toNat)) ks with
      | none => some "unsupported"
      | some bs => some (if bs.isEmpty then "-" else String.ofList (bs.map fun b => if b then 'D' else 'N'))
  | ["startup", which, h] => do
      let c ← if which == "app" then some CJ.Startup.appCode else if which == "reg" then some CJ.Startup.regCode else none
      match CJ.Startup.startup c (← parseHex h) with
      | .refused => some "refused"
      | .runs l => some s!"runs:{l}"
      | .illformed => some "illformed"
  | ["emits", l, m] => do some (showBool (emits (← l.toInt?) (← parseMeth m)))
  | _ => none

end CJ.Drv.Logger
