import CJ.Model.Logger
import CJ.Drv.Util
/-! Line protocol for the logger model: `logger|run|op;op;…` answers the sink (hex) or `nil-logger`;
`logger|parse|hex` answers the level or `err`; `logger|emits|level|meth` answers 0/1. -/
namespace CJ.Drv.Logger
open CJ.Logger

def parseMeth : String → Option Meth
  | "trace" => some .trace | "debug" => some .debug | "warn" => some .warn
  | "error" => some .error | "info" => some .info | "print" => some .print
  | _ => none

def parseForm : String → Option Form
  | "p" => some .plain | "l" => some .ln | "f" => some .f
  | _ => none

def parseOp (s : String) : Option (Op UInt8) :=
  match s.splitOn "," with
  | ["G", l] => do some (.setLevel (← l.toInt?))
  | ["N", p] => do some (.new (← parseHex p))
  | ["L", i, l] => do some (.lSetLevel (← i.toNat?) (← l.toInt?))
  | ["P", i, p] => do some (.lSetPrefix (← i.toNat?) (← parseHex p))
  | ["S", p] => do some (.setStdPrefix (← parseHex p))
  | ["C", t, m, f, msg] => do
      let tgt ← if t == "p" then some none else (t.toNat?).map some
      some (.call tgt (← parseMeth m) (← parseForm f) (← parseHex msg))
  | _ => none

def handle : List String → Option String
  | ["run", ops] => do
      let ops ← (fields ops ";").mapM parseOp
      match run (10 : UInt8) ops {} with
      | none => some "nil-logger"
      | some s => some (toHex s.sink)
  | ["parse", h] => do
      match parseLevel (← parseHex h) with
      | none => some "err"
      | some l => some (toString l)
  | ["emits", l, m] => do some (showBool (emits (← l.toInt?) (← parseMeth m)))
  | _ => none

end CJ.Drv.Logger
