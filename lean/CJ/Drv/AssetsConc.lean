import CJ.Drv.Util
import CJ.Model.AssetsConc
/-! Driver side of `conc|…`: concurrent callers of the asset store.  A configuration is its generation number.
    Line: `conc|<init>|<call>;…|<mem>,<file>|<seen>,…` with `<call>` = `c:<gen>:<ok>` (SetClientConf) or `g:<gen>:<ok>`
    (SetGeneration).  The answer says whether some order of the calls, each run as the program the regenerated lock
    table gives it (`CJ.AssetsConc.run` over `start <shape read off the source>`), ends in the observed memory / file,
    and whether every value a reader saw is one that was installed for good. -/
namespace CJ.Drv.AssetsConc
open CJ.Drv CJ.AssetsConc CJ.AssetsLocks

def parseCall (s : String) : Option (Call Nat × String) :=
  match s.splitOn ":" with
  | [k, g, ok] => do
    let g ← g.toNat?
    let ok ← parseBool ok
    if k = "c" then some (.setConf g ok, k) else if k = "g" then some (.inPlace (fun _ => g) ok, k) else none
  | _ => none

def insertAll (x : α) : List α → List (List α)
  | [] => [[x]]
  | y :: ys => (x :: y :: ys) :: (insertAll x ys).map (y :: ·)

def perms : List α → List (List α)
  | [] => [[]]
  | x :: xs => (perms xs).flatMap (insertAll x)

/-- generations installed for good: the initial one, successful SetClientConf, every SetGeneration -/
def legitGens (init : Nat) (cs : List (String × Nat × Bool)) : List Nat :=
  init :: cs.filterMap fun (k, g, ok) => if k = "g" || ok then some g else none

def handle (args : List String) : Option String :=
  match args with
  | [init, calls, fin, seen] => do
    let init ← init.toNat?
    let raw ← (calls.splitOn ";").mapM fun s => do
      let (c, k) ← parseCall s
      match s.splitOn ":" with
      | [_, g, ok] => some (c, k, ← g.toNat?, ← parseBool ok)
      | _ => none
    if raw.length > 6 then none
    let cs := raw.map (·.1)
    let (m, f) ← match fin.splitOn "," with
      | [m, f] => do some (← m.toNat?, ← f.toNat?)
      | _ => none
    let seen ← if seen = "-" then some [] else parseNatList seen
    -- the shape of the setters comes from the regenerated table
    let sh ← shapeOfMethod CJ.Gen.assetsLockTable "SetClientConf"
    let sh2 ← shapeOfMethod CJ.Gen.assetsLockTable "SetGeneration"
    if sh != sh2 then none
    let orders := perms (List.range cs.length)
    let finals := orders.map fun o => (run ⟨init, init⟩ (start sh cs) o).sh
    let serial := finals.any fun s => s.mem = m && s.file = f
    let legit := legitGens init (raw.map fun (_, k, g, ok) => (k, g, ok))
    let bad := seen.filter fun v => !legit.contains v
    let a := if serial then "serial" else "not-serial"
    let b := if bad.isEmpty then "readers-ok" else "reader-saw-rolled-back"
    some s!"{a} {b}"
  | _ => none

end CJ.Drv.AssetsConc
