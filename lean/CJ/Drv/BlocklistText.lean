import CJ.Model.BlocklistText
import CJ.Drv.Util
/-! Driver for `ParseBlocklists` on text.
`loadtext|<block>|<phantom>|<allow>|<probes>` — three lists of entries and a list of address literals, every item the
hex of its UTF-8 text, items separated by `/` (`-` = empty list, `.` = the empty string)
→ `err` (an entry does not parse) | `ok:<covert>:<phantom>` (per probe: refused as covert address? / as phantom? —
`x` for a probe that `net.ParseIP` does not accept) -/
namespace CJ.Drv.BlocklistText
open CJ.BlocklistText CJ.Config CJ.Drv

def hexText (h : String) : Option String :=
  if h == "." then some "" else do
    let bs ← parseHex h
    String.fromUTF8? (ByteArray.mk bs.toArray)

def parseItems (s : String) : Option (List String) :=
  if s == "-" then some [] else (s.splitOn "/").mapM hexText

def noPat (_ : String) : Outcome Unit := .err

def handle (args : List String) : Option String :=
  match args with
  | [b, p, a, pr] => do
    let raw : Raw := { block := ← parseItems b, domains := [], phantom := ← parseItems p, allow := ← parseItems a,
                       publicAddrs := false }
    let probes ← parseItems pr
    match parseText noPat none raw with
    | .err => some "err"
    | .panic => some "panic"
    | .ok pol =>
      let ips := probes.map fun t => CJ.NetAddr.parseIP t.toList
      let bit (f : List Nat → Bool) : Option (List Nat) → Char
        | none => 'x'
        | some ip => if f ip then '1' else '0'
      some ("ok:" ++ String.ofList (ips.map (bit (covertBlocked pol))) ++ ":" ++ String.ofList (ips.map (bit (phantomBlocked pol))))
  | _ => none

end CJ.Drv.BlocklistText
