import CJ.Model.PatternList
import CJ.Drv.BlocklistText
/-! Driver for the `covert_blocklist_domains` pattern list.
`pattern|<patterns>|<hosts>|<verdicts>|<matrix>` — patterns and hosts as items (hex of the UTF-8 text, `/` between,
`-` = empty list, `.` = the empty string); verdicts: one letter per pattern, `o` compiles / `e` does not, as
`regexp.Compile` answered **on the text as written**; matrix: per pattern a bit string over the hosts
(`MatchString` of the expression compiled from the text as written on the host as given), `/` between.
→ `err:<position of the entry named by the error>` | `ok:<per host: refused?>` -/
namespace CJ.Drv.PatternList
open CJ.PatternList CJ.Drv

def handle (args : List String) : Option String :=
  match args with
  | [ps, hs, vs, ms] => do
    let pats ← BlocklistText.parseItems ps
    let hosts ← BlocklistText.parseItems hs
    let verdicts := if vs == "-" then [] else vs.toList
    let rows := if ms == "-" then [] else (ms.splitOn "/").map String.toList
    if verdicts.length != pats.length || rows.length != pats.length then none
    if rows.any (fun r => r.length != hosts.length) then none
    let tbl : List (String × Bool × List String) :=
      (pats.zip (verdicts.zip rows)).map fun (p, v, r) =>
        (p, v == 'o', ((hosts.zip r).filter (fun (_, b) => b == '1')).map (·.1))
    let E := tableEngine tbl
    match load E id pats with
    | .error (i, _) => some s!"err:{i}"
    | .ok l => some ("ok:" ++ String.ofList (hosts.map fun h => if blocked E id l h then '1' else '0'))
  | _ => none

end CJ.Drv.PatternList
