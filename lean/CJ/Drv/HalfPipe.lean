import CJ.Model.HalfPipe
import CJ.Drv.Util
/-! Driver for the relay model.

`halfpipe|<up>|<reads>|<writes>|<dls>|<srcClose>|<dstClose>`
  reads  = `hex:err;hex:err;…`   writes = `accepted:err;…`   dls = `1,0,u1,u0,…` (call order: src, dst, src, …; `u` = SetDeadline answers ENOTSUP, then SetReadDeadline ok / fails)
  err    = `-` | eof | closed | epipe | rst | refused | aborted | unreach | timeout | short | `o.<hex text>`
answer: `T:<events>|D:<hex>|n:<counted>|cli:<hex>|cov:<hex>|c:<src closes>,<dst closes>|done:<n>|comp:<n>|logs:<n>`

`proxy|<dialErr>|<header: - or 1 or 0>|<up reads>|<up writes>|<up dls>|<up sc>|<up dc>|<down reads>|…|<down dc>`
answer: `started:<b>|ret:<b>|gauge:<adds - removes>|printed:<n>|up:<n>|down:<n>|dial:<hex>|cli:<hex>|cov:<hex>|cc:<client closes>|vc:<covert connection closed>|panic:<b>` -/
namespace CJ.Drv.HalfPipe
open CJ.HalfPipe CJ.Drv

def parseErr (s : String) : Option (Option Err) :=
  if s == "-" then some none
  else if s == "eof" then some (some .eof)
  else if s == "closed" then some (some .closed)
  else if s == "epipe" then some (some .epipe)
  else if s == "rst" then some (some .reset)
  else if s == "refused" then some (some .refused)
  else if s == "aborted" then some (some .aborted)
  else if s == "unreach" then some (some .unreachable)
  else if s == "timeout" then some (some .timeout)
  else if s == "short" then some (some .shortWrite)
  else match s.splitOn "." with
    | ["o", h] => do
      let bs ← parseHex h
      let t ← String.fromUTF8? (ByteArray.mk bs.toArray)
      some (some (.other t))
    | _ => none

def parseRead (s : String) : Option ReadRes :=
  match s.splitOn ":" with
  | [h, e] => do some ⟨← parseHex h, ← parseErr e⟩
  | _ => none

def parseWrite (s : String) : Option WriteRes :=
  match s.splitOn ":" with
  | [a, e] => do some ⟨← a.toNat?, ← parseErr e⟩
  | _ => none

def parseDl (s : String) : Option DlRes :=
  if s == "1" then some .ok else if s == "0" then some .fail
  else if s == "u1" then some (.unsupported true) else if s == "u0" then some (.unsupported false) else none

def parseScript (rs ws ds sc dc : String) : Option Script := do
  some { reads := ← (fields rs ";").mapM parseRead, writes := ← (fields ws ";").mapM parseWrite,
         dls := ← (fields ds ",").mapM parseDl, srcClose := ← parseErr sc, dstClose := ← parseErr dc }

def showEv : Ev → String
  | .dl onSrc ok fb => "d" ++ (if onSrc then "s" else "d") ++ showBool ok ++ (if fb then "f" else "")
  | .read n err => s!"r{n}" ++ (if err then "e" else "")
  | .write o n err => s!"w{o}/{n}" ++ (if err then "e" else "")

def textHex (s : String) : String := toHex s.toUTF8.toList

def showOut (o : Out) : String :=
  "T:" ++ joinWith "," (o.trace.map showEv) ++ "|D:" ++ toHex o.delivered ++ s!"|n:{o.counted}" ++
  "|cli:" ++ textHex o.stats.client ++ "|cov:" ++ textHex o.stats.covert ++
  s!"|c:{o.closedSrc},{o.closedDst}|done:{o.done}|comp:{o.completed}|logs:{o.logs}"

def parseHeader (s : String) : Option (Option Bool) :=
  if s == "-" then some none else if s == "1" then some (some true) else if s == "0" then some (some false) else none

def showProxy (o : ProxyOut) : String :=
  s!"started:{showBool o.started}|ret:{showBool o.returned}|gauge:{(o.gaugeAdds : Int) - o.gaugeRemoves}" ++
  s!"|printed:{o.printed}|up:{o.bytesUp}|down:{o.bytesDown}|dial:" ++ textHex o.dialStat ++
  "|cli:" ++ textHex o.stats.client ++ "|cov:" ++ textHex o.stats.covert ++
  s!"|cc:{o.clientCloses}|vc:{showBool (decide (0 < o.covertCloses))}|panic:{showBool o.panicked}"

def handle (args : List String) : Option String :=
  match args with
  | [up, rs, ws, ds, sc, dc] => do
    let s ← parseScript rs ws ds sc dc
    some (showOut (halfPipe (← parseBool up) {} s))
  | _ => none

def handleProxy (args : List String) : Option String :=
  match args with
  | [de, hd, urs, uws, uds, usc, udc, drs, dws, dds, dsc, ddc] => do
    let i : ProxyIn := { dialErr := ← parseErr de, header := ← parseHeader hd,
                         up := ← parseScript urs uws uds usc udc, down := ← parseScript drs dws dds dsc ddc }
    some (showProxy (proxy i))
  | _ => none

end CJ.Drv.HalfPipe
