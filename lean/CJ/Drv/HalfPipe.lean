import CJ.Model.HalfPipe
import CJ.Drv.Util
/-! Driver for the relay model.

`halfpipe|<up>|<reads>|<writes>|<dls>|<srcClose>|<dstClose>`
  reads  = `hex:err;hex:err;…`   writes = `accepted:err;…`   dls = `1,0,u1,u0,…` (call order: src, dst, src, …; `u` = SetDeadline answers ENOTSUP, then SetReadDeadline ok / fails)
  err    = `-` | eof | closed | epipe | rst | refused | aborted | unreach | timeout | short | `o.<hex text>`
           | dlx | eagain | etimedout | net.tt | net.tf   (further members of the class `generalizeErr` maps to "timeout":
             the bare os.ErrDeadlineExceeded, *net.OpError over EAGAIN / ETIMEDOUT, a custom net.Error with
             Timeout() = true and Temporary() = true / false)
           | eintr | net.ft | net.ff   (not in any class: *net.OpError over EINTR — Temporary() is true —, a custom
             net.Error with Timeout() = false and Temporary() = true / false; recorded by their text)
  a read / write error followed by `!` is **persistent**: the connection answers every later call with the same
  error (and no bytes).  The model is given three further copies; `CJ.Props.C05.after_read_error_irrelevant` says
  that what follows the first failing read is irrelevant.
answer: `T:<events>|D:<hex>|n:<counted>|cli:<hex>|cov:<hex>|c:<src closes>,<dst closes>|done:<n>|comp:<n>|logs:<n>`

`proxy|<dialErr>|<header: - or 1 or 0>|<up reads>|<up writes>|<up dls>|<up sc>|<up dc>|<down reads>|…|<down dc>`
answer: `started:<b>|ret:<b>|gauge:<adds - removes>|printed:<n>|up:<n>|down:<n>|dial:<hex>|cli:<hex>|cov:<hex>|cc:<client closes>|vc:<covert connection closed>|panic:<b>` -/
namespace CJ.Drv.HalfPipe
open CJ.HalfPipe CJ.Drv

def parseErr (op : String) (s : String) : Option (Option Err) :=
  if s == "-" then some none
  else if s == "eof" then some (some .eof)
  else if s == "closed" then some (some .closed)
  else if s == "epipe" then some (some .epipe)
  else if s == "rst" then some (some .reset)
  else if s == "refused" then some (some .refused)
  else if s == "aborted" then some (some .aborted)
  else if s == "unreach" then some (some .unreachable)
  else if s == "timeout" || s == "dlx" || s == "eagain" || s == "etimedout" || s == "net.tt" || s == "net.tf" then
    some (some .timeout)
  else if s == "short" then some (some .shortWrite)
  else if s == "eintr" then some (some (.other s!"{op} tcp: {op}: interrupted system call"))
  else if s == "net.ft" then some (some (.other "link flapping"))
  else if s == "net.ff" then some (some (.other "link down"))
  else match s.splitOn "." with
    | ["o", h] => do
      let bs ← parseHex h
      let t ← String.fromUTF8? (ByteArray.mk bs.toArray)
      some (some (.other t))
    | _ => none

/-- `code` or `code!` (persistent); `-!` is not a thing -/
def parseErrSticky (op : String) (s : String) : Option (Option Err × Bool) :=
  if s.endsWith "!" then do
    let e ← parseErr op (s.dropEnd 1).toString
    if e.isNone then none else some (e, true)
  else do some (← parseErr op s, false)

def parseRead (s : String) : Option (List ReadRes) :=
  match s.splitOn ":" with
  | [h, e] => do
    let (err, sticky) ← parseErrSticky "read" e
    let r : ReadRes := ⟨← parseHex h, err⟩
    some (if sticky then r :: List.replicate 3 ⟨[], err⟩ else [r])
  | _ => none

def parseWrite (s : String) : Option (List WriteRes) :=
  match s.splitOn ":" with
  | [a, e] => do
    let (err, sticky) ← parseErrSticky "write" e
    let w : WriteRes := ⟨← a.toNat?, err⟩
    some (if sticky then w :: List.replicate 3 w else [w])
  | _ => none

def parseDl (s : String) : Option DlRes :=
  if s == "1" then some .ok else if s == "0" then some .fail
  else if s == "u1" then some (.unsupported true) else if s == "u0" then some (.unsupported false) else none

def parseScript (rs ws ds sc dc : String) : Option Script := do
  some { reads := (← (fields rs ";").mapM parseRead).flatten, writes := (← (fields ws ";").mapM parseWrite).flatten,
         dls := ← (fields ds ",").mapM parseDl, srcClose := ← parseErr "close" sc, dstClose := ← parseErr "close" dc }

def showEv : Ev → String
  | .dl onSrc ok fb => "d" ++ (if onSrc then "s" else "d") ++ showBool ok ++ (if fb then "f" else "")
  | .read n err => s!"r{n}" ++ (if err then "e" else "")
  | .write o n err => s!"w{o}/{n}" ++ (if err then "e" else "")

def textHex (s : String) : String := toHex s.toUTF8.toList

def showOut (o : Out) : String :=
  "T:" ++ joinWith "," (o.trace.map showEv) ++ "|D:" ++ toHex o.delivered ++ s!"|n:{o.counted}" ++
  "|cli:" ++ textHex o.stats.client ++ "|cov:" ++ textHex o.stats.covert ++
  s!"|c:{o.closedSrc},{o.closedDst}|done:{o.done}|comp:{o.completed}|logs:{o.logs}"

def parseHeader (s : String) : Option (Option Bool) :=
  if s == "-" then some none else if s == "1" then some (some true) else if s == "0" then some (some false) else none

def showProxy (o : ProxyOut) : String :=
  s!"started:{showBool o.started}|ret:{showBool o.returned}|gauge:{(o.gaugeAdds : Int) - o.gaugeRemoves}" ++
  s!"|printed:{o.printed}|up:{o.bytesUp}|down:{o.bytesDown}|dial:" ++ textHex o.dialStat ++
  "|cli:" ++ textHex o.stats.client ++ "|cov:" ++ textHex o.stats.covert ++
  s!"|cc:{o.clientCloses}|vc:{showBool (decide (0 < o.covertCloses))}|panic:{showBool o.panicked}"

def handle (args : List String) : Option String :=
  match args with
  | [up, rs, ws, ds, sc, dc] => do
    let s ← parseScript rs ws ds sc dc
    some (showOut (halfPipe (← parseBool up) {} s))
  | _ => none

def handleProxy (args : List String) : Option String :=
  match args with
  | [de, hd, urs, uws, uds, usc, udc, drs, dws, dds, dsc, ddc] => do
    let i : ProxyIn := { dialErr := ← parseErr "dial" de, header := ← parseHeader hd,
                         up := ← parseScript urs uws uds usc udc, down := ← parseScript drs dws dds dsc ddc }
    some (showProxy (proxy i))
  | _ => none

end CJ.Drv.HalfPipe
