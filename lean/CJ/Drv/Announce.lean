import CJ.Model.Announce
import CJ.Model.AnnounceStation
import CJ.Gen.C10Consts
import CJ.Drv.Detector
import CJ.Drv.Registry
/-! Driver for the registry ∥ detector history model (C10).

`c10h|<unusedNs>|<activeNs>|<enabled transports>|<key>;<key>;…|<op>;<op>;…`

* a key is `<phantom text>,<identifier hex>,<transport>,<phantom hex>,<registrant hex>,<port>,<proto>`: the
  registry key (phantom text, identifier), the transport and the announcement-relevant fields of the
  registration stored under it; operations refer to keys by index;
* an operation is `i,<key>,<now>,<passes>` (`ingestRegistration`), `t,<key>,<now>` (`TrackRegistration`),
  `r,<key>,<now>` (`AddRegistration`), `m,<key>,<now>` (`MarkActive`), `s,<now>` (`RemoveOldRegistrations`),
  `p,<now>` (probe: the detector's `drop_stale_sessions` at `now`, then for every key whether the station
  returns it for its phantom and whether the packet path forwards its flow); clock values in ns.

The lifetimes and operations of the two closures are those observed on the tree under test
(`CJ.Gen.C10`).  The detector's map starts with the same foreign key as in the `c10|` cases.

Answer per operation: `ok|err` (t), `err|dup|none|new/<session>/<expiry>` (i, r), `none|upd/<session>/<expiry>`
(m), `swept <n> <valid>` (s), `p:<accepted><forwarded>,…` (p, one pair of bits per key). -/
namespace CJ.Drv.Announce
open CJ.Announce CJ.Drv

structure KeyInfo where
  key : CJ.Registry.Key
  tr : Nat
  reg : CJ.Detector.Reg

def parseKey (s : String) : Option KeyInfo :=
  match s.splitOn "," with
  | [ph, id, tr, phb, rgb, port, proto] => do
    some { key := (ph, id), tr := ← tr.toNat?,
           reg := { phantom := ← parseHex phb, registrant := ← parseHex rgb, port := ← port.toNat?, proto := ← proto.toNat? } }
  | _ => none

inductive DOp
  | op (o : HOp) (ki : Nat)
  | sweep (now : Nat)
  | probe (now : Nat)

def parseOp (keys : Array KeyInfo) (s : String) : Option DOp :=
  match s.splitOn "," with
  | ["i", ki, now, p] => do
    let i ← ki.toNat?
    let k ← keys[i]?
    some (.op (.ingest k.key k.tr (← now.toNat?) (← parseBool p)) i)
  | ["t", ki, now] => do
    let i ← ki.toNat?
    let k ← keys[i]?
    some (.op (.track k.key k.tr (← now.toNat?)) i)
  | ["r", ki, now] => do
    let i ← ki.toNat?
    let k ← keys[i]?
    some (.op (.register k.key k.tr (← now.toNat?)) i)
  | ["m", ki, now] => do
    let i ← ki.toNat?
    let k ← keys[i]?
    some (.op (.markActive k.key k.tr (← now.toNat?)) i)
  | ["s", now] => do some (.sweep (← now.toNat?))
  | ["p", now] => do some (.probe (← now.toNat?))
  | _ => none

def params (keys : Array KeyInfo) : Params :=
  { regOf := fun k => match keys.find? (·.key == k) with
      | some ki => ki.reg
      | none => { phantom := [], registrant := [], port := 0, proto := 0 }
    newNs := CJ.Gen.C10.announcedNewNs, newOp := CJ.Gen.C10.announcedNewOp
    updNs := CJ.Gen.C10.announcedUpdateNs, updOp := CJ.Gen.C10.announcedUpdateOp }

def showOut (P : Params) (y' : Sys) (op : HOp) (o : CJ.Registry.Out) : String :=
  let base := CJ.Drv.Registry.showOut o
  match emitted op o with
  | none => base
  | some (k, kind) =>
    let conv := CJ.Detector.convert (P.msg k kind)
    let val := match conv with
      | .ok s => (match CJ.Detector.Map.get? y'.det (.tag (CJ.Detector.tagOf s)) with
          | some v => toString v
          | none => "-")
      | .error _ => "-"
    s!"{base}/{CJ.Drv.Detector.showConv conv}/{val}"

/-- the flow the client of a registration sends, as the packet path sees it -/
def flowOf (r : CJ.Detector.Reg) : Option CJ.Detector.Flow :=
  match CJ.Detector.ipOf r.phantom, CJ.Detector.ipOf r.registrant with
  | some ph, some cl => some { src := cl, dst := ph, dstPort := r.port, proto := if r.proto = CJ.Detector.protoTcp then 6 else 17 }
  | _, _ => none

def probeKey (y : Sys) (k : KeyInfo) : String :=
  let acc := match y.reg.decoys[k.key]? with
    | some r => r.valid
    | none => false
  let fwd := match flowOf k.reg with
    | some f => showBool (CJ.Detector.isTracked y.det f)
    | none => "?"
  showBool acc ++ fwd

def handle (args : List String) : Option String :=
  match args with
  | [u, a, en, ks, ops] => do
    let c : CJ.Registry.Cfg := { unusedT := ← u.toNat?, activeT := ← a.toNat?, enabled := ← parseNatList en }
    let keys := (← (fields ks ";").mapM parseKey).toArray
    let P := params keys
    let dops ← (fields ops ";").mapM (parseOp keys)
    let y0 : Sys := { reg := {}, det := [(CJ.Drv.Detector.sentinel, 1)] }
    let (_, outs) := dops.foldl (fun (acc : Sys × List String) d =>
      match d with
      | .op o _ =>
        let (y', out) := step P c acc.1 o
        (y', showOut P y' o out :: acc.2)
      | .sweep now =>
        let (y', out) := step P c acc.1 (.sweep now)
        (y', CJ.Drv.Registry.showOut out :: acc.2)
      | .probe now =>
        let (y', _) := step P c acc.1 (.dsweep now)
        (y', ("p:" ++ joinWith "," (keys.toList.map (probeKey y'))) :: acc.2)) (y0, [])
    some (joinWith ";" outs.reverse)
  | _ => none

/-! ## station scenarios: pipeline, shutdown, availability of the channel

`c10s|<unusedNs>|<activeNs>|<enabled>|<key>;…|<event>;…` with events `i,<key>,<now>,<passes>` / `m,<key>,<now>` /
`s,<now>` (history events in one piece), `b,<key>,<now>` (a worker takes the message: ingest up to its probe),
`f,<key>,<now>,<passes>` (the probe returns), `x,<now>,<outcome bits | ->` (`cancel(); wg.Wait()`), `c,<now>`
(`Cleanup()`), `U` / `D` (the channel comes up / goes down).  Whether `x` waits for parked ingests is the
go/ast fact of the tree under test.  Answer: `<messages that reached the channel, in order>|<size of the
detector's table>`; a message is `new:<key>`, `upd:<key>` or `clear`. -/

def parseBits (s : String) : Option (List Bool) :=
  if s == "-" then some [] else s.toList.mapM (fun ch => if ch == '1' then some true else if ch == '0' then some false else none)

def parseSOp (keys : Array KeyInfo) (s : String) : Option SOp :=
  match s.splitOn "," with
  | ["i", ki, now, p] => do
    let k ← keys[← ki.toNat?]?
    some (.op (.ingest k.key k.tr (← now.toNat?) (← parseBool p)))
  | ["m", ki, now] => do
    let k ← keys[← ki.toNat?]?
    some (.op (.markActive k.key k.tr (← now.toNat?)))
  | ["s", now] => do some (.op (.sweep (← now.toNat?)))
  | ["b", ki, now] => do
    let k ← keys[← ki.toNat?]?
    some (.begin k.key k.tr (← now.toNat?))
  | ["f", ki, now, p] => do
    let k ← keys[← ki.toNat?]?
    some (.finish k.key (← now.toNat?) (← parseBool p))
  | ["x", now, bits] => do some (.stop (← now.toNat?) (← parseBits bits))
  | ["c", now] => do some (.cleanup (← now.toNat?))
  | ["U"] => some .chanUp
  | ["D"] => some .chanDown
  | _ => none

def showMsg (keys : Array KeyInfo) : Msg → String
  | .clear => "clear"
  | .ann k kind =>
    let i := match keys.findIdx? (·.key == k) with
      | some i => toString i
      | none => "?"
    (if kind = .new then "new:" else "upd:") ++ i

def handleStation (args : List String) : Option String :=
  match args with
  | [u, a, en, ks, evs] => do
    let c : CJ.Registry.Cfg := { unusedT := ← u.toNat?, activeT := ← a.toNat?, enabled := ← parseNatList en }
    let keys := (← (fields ks ";").mapM parseKey).toArray
    let Q : SParams := { P := params keys, clear := CJ.Gen.C10.clearMsg,
                         sync := CJ.Gen.C10.asyncIngestCalls.isEmpty && CJ.Gen.C10.workersCounted && CJ.Gen.C10.mainWaitsForPipeline }
    let sops ← (fields evs ";").mapM (parseSOp keys)
    let st0 : Station := { sys := { reg := {}, det := [(CJ.Drv.Detector.sentinel, 1)] } }
    let st := srun Q c sops st0
    let log := if st.log.isEmpty then "-" else joinWith "," (st.log.map (showMsg keys))
    some s!"{log}|{st.sys.det.length}"
  | _ => none

end CJ.Drv.Announce
