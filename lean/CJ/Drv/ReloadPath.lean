import CJ.Model.ReloadRound
import CJ.Gen.ReloadPath
import CJ.Drv.Util
/-! Driver for the reload goroutine's model (C13, main() harness).

`gate|<old generations>|<old ClientConf generation>|<new generations or ->|<new ClientConf generation or ->|<phase>|<entry>|<client generation>`

A registrar whose installed subnet set has the old generations and whose ClientConf generation is the old one is
reloaded; `-` for the new generations = the subnet file cannot be loaded, `-` for the new ClientConf generation =
the configuration or the ClientConf cannot be loaded.  The round the reload goroutine takes is looked up in the
regenerated table `Gen.ReloadPath.sighupRounds` by that shape (selector written or not, generations published or
not), never by position.  `<phase>` is where the goroutine stands when the request arrives: `before` (held reading
the configuration or the ClientConf: no step taken), `subnets` (held reading the subnet file: the steps before it
asks for the selector's write lock), `after` (the round is complete).  `<entry>`: a API bidirectional, d DNS
bidirectional, u / e unidirectional.  Answer: `ok:old` / `ok:new` (answered, from which subnet set), `ok`
(unidirectional), `fail`. -/
namespace CJ.Drv.ReloadPath
open CJ.ReloadPath CJ.Drv

def handle : List String → Option String
  | [oldSel, oldGen, newSel, newGen, phase, entry, g] => do
    let osel ← parseNatList oldSel "."
    let ogen ← oldGen.toNat?
    let g ← g.toNat?
    let e ← match entry with
      | "a" => some Entry.api | "d" => some Entry.dns | "u" => some Entry.uni | "e" => some Entry.uni | _ => none
    let ccOK := newGen != "-"
    let subOK := newSel != "-" && ccOK
    let nsel ← if newSel != "-" then parseNatList newSel "." else some []
    let ngen ← if ccOK then newGen.toNat? else some 0
    let round ← roundOf CJ.Gen.ReloadPath.sighupRounds ccOK subOK
    let selIdx ← CJ.Gen.ReloadPath.mutexes.findIdx? (fun m => m.1 == "regprocessor.RegProcessor.selectorMutex")
    let pre ← match phase with
      | "before" => some []
      | "subnets" => if subOK then some (beforeSelLock selIdx round) else none
      | "after" => some round
      | _ => none
    let c := run ⟨nsel, ngen⟩ ⟨osel, ogen, ogen⟩ pre
    if e == .uni then some "ok"
    else if answered c e g then some (if hasSelWrite pre then "ok:new" else "ok:old")
    else some "fail"
  | _ => none

end CJ.Drv.ReloadPath
