import CJ.Model.Registry
import CJ.Drv.Util
/-! Driver for the registry model.
`registry|<unusedT>|<activeT>|<enabled>|<op>;<op>;…` → `<out>;<out>;…|D:<decoys>|T:<timeouts>|P:<buckets>`
(`P`: the phantoms whose inner map is stored in the nested Go map, from the bucketed model `bstep`). -/
namespace CJ.Drv.Registry
open CJ.Registry CJ.Drv

def parseOp (s : String) : Option Op :=
  match s.splitOn "," with
  | ["t", ph, id, tr, now] => do some (.track (ph, id) (← tr.toNat?) (← now.toNat?))
  | ["r", ph, id, tr, now] => do some (.register (ph, id) (← tr.toNat?) (← now.toNat?))
  | ["m", ph, id, tr] => do some (.markActive (ph, id) (← tr.toNat?))
  | ["c", now] => do some (.collect (← now.toNat?))
  | ["x", ph, id, now] => do some (.remove (ph, id) (← now.toNat?))
  | ["s", now] => do some (.sweep (← now.toNat?))
  | ["l", ph] => some (.lookup ph)
  | ["e", ph, id, tr] => do some (.exists_ (ph, id) (← tr.toNat?))
  | ["n", ph] => some (.count ph)
  | ["T"] => some .total
  | _ => none

def showOut : Out → String
  | .ok => "ok" | .err => "err" | .new => "new" | .dup => "dup" | .upd => "upd" | .none => "none"
  | .swept n v => s!"swept {n} {v}"
  | .keys l => joinWith " " ("keys" :: sortStrings (l.map fun k => k.1 ++ "," ++ k.2))
  | .regs l => joinWith " " ("regs" :: sortStrings l)
  | .bool b => showBool b
  | .num n => toString n

def dump (s : St) : String :=
  let d := sortStrings (s.decoys.toList.map fun (k, r) =>
    s!"{k.1},{k.2},{r.transport},{showBool r.valid},{r.regCount}")
  let t := sortStrings (s.timeouts.toList.map fun (k, t) =>
    s!"{k.1},{k.2},{t.time},{showBool t.used}")
  "D:" ++ joinWith "/" d ++ "|T:" ++ joinWith "/" t

def handle (args : List String) : Option String :=
  match args with
  | [u, a, en, ops] => do
    let c : Cfg := { unusedT := ← u.toNat?, activeT := ← a.toNat?, enabled := ← parseNatList en }
    let ops ← (fields ops ";").mapM parseOp
    let (b, outs) := ops.foldl (fun (acc : BSt × List String) o =>
      let (b', out) := bstep c acc.1 o
      (b', showOut out :: acc.2)) (binit, [])
    some (joinWith ";" outs.reverse ++ "|" ++ dump b.st ++ "|P:" ++ joinWith "," (sortStrings b.buckets))
  | _ => none

end CJ.Drv.Registry
