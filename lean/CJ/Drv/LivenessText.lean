import CJ.Model.LivenessText
import CJ.Drv.Liveness
/-! Driver lines of the lifetime-text layer.
`dur|<hex of the text>` → `ok <ns>` / `err` (/ `fuel`, never)
`cachet|<hex live text>|<capLive>|<hex non-live text>|<capNonLive>|<ops>` → as `cache|…`, the lifetimes parsed by the model -/
namespace CJ.Drv.LivenessText
open CJ.Liveness CJ.DurationText CJ.Drv

def bytesOf (hex : String) : Option Bytes := (parseHex hex).map (·.map UInt8.toNat)

def showRes : Res → String
  | .ok d => s!"ok {d}"
  | .err => "err"
  | .fuel => "fuel"

def handleDur (args : List String) : Option String :=
  match args with
  | [h] => do some (showRes (parseDuration (← bytesOf h)))
  | _ => none

def durField : Dur → String
  | .unset => "-"
  | .bad => "E"
  | .ok d => toString d

def handleCache (args : List String) : Option String :=
  match args with
  | [hl, cl, hn, cn, ops] => do
    let tl ← bytesOf hl
    let tn ← bytesOf hn
    let tc : TextConfig := { liveText := tl, capLive := ← cl.toInt?, nonLiveText := tn, capNonLive := ← cn.toInt? }
    let cfg := tc.toConfig
    Liveness.handle [durField cfg.durLive, cl, durField cfg.durNonLive, cn, ops]
  | _ => none

end CJ.Drv.LivenessText
