import CJ.Model.WrapReg
import CJ.Model.WrapStream
import CJ.Gen.PrefixTable
import CJ.Drv.Registry
import CJ.Drv.RegistryX
/-! Driver for the classifier models on top of the registry model.
`regwrap|<unusedT>|<activeT>|<enabled>|<ops>|<info>|<phantom>|<transport>|<data hex>|<reveal>|<marks>`
(`<ops>`: an extended history, see `CJ.Drv.RegistryX` — every base operation, objects delivered with a
prior `Valid` flag, tunnels, bursts, interrupted sweeps)
→ `tryagain | nottransport | err-transport | err-prefix | found <rid> <consumed> | panic` -/
namespace CJ.Drv.Wrap
open CJ.Registry CJ.Wrap CJ.Drv

def parsePP (s : String) : Option (Option (Option Int)) :=
  if s == "-" then some none
  else if s == "nil" then some (some none)
  else (s.toInt?).map (fun i => some (some i))

/-- `ph,ident,pp,rid;…` -/
def parseInfo (s : String) : Option (List (Key × (Option (Option Int)) × Nat)) :=
  (fields s ";").mapM fun x =>
    match x.splitOn "," with
    | [ph, id, pp, rid] => do some ((ph, id), (← parsePP pp), (← rid.toNat?))
    | _ => none

/-- `<offset>=<id under key 1>+<id under key 2>+…,…` — per candidate window what each station key
reveals, in key order -/
def parseReveal (s : String) : Option (List (Nat × List String)) :=
  (fields s ",").mapM fun x =>
    match x.splitOn "=" with
    | [o, h] => do some ((← o.toNat?), fields h "+")
    | _ => none

/-- `m:<rid>=<mark hex>,…` — the obfs4 mark of each registration over the representative of this buffer
(`-`: the registration has no usable keys); the search for it is the model's (`wrapObfs4M`) -/
def parseMarkOf (s : String) : Option (List (Nat × Option Bytes)) :=
  (fields s ",").mapM fun x =>
    match x.splitOn "=" with
    | [r, h] => do
      let rid ← r.toNat?
      if h == "-" then some (rid, none) else some (rid, some (← parseHex h))
    | _ => none

def showVerdict : Verdict → String
  | .tryAgain => "tryagain" | .notTransport => "nottransport"
  | .errIncorrectTransport => "err-transport" | .errIncorrectPrefix => "err-prefix"
  | .found rid n => s!"found {rid} {n}" | .panic => "panic"

def handle (args : List String) : Option String :=
  match args with
  | [u, a, en, ops, info, ph, tr, data, reveal, marks] => do
    let c : Cfg := { unusedT := ← u.toNat?, activeT := ← a.toNat?, enabled := ← parseNatList en }
    let ops ← RegistryX.parseOps ops
    let info ← parseInfo info
    let d ← parseHex data
    let rev ← parseReveal reveal
    let markTab ← if marks.startsWith "m:" then parseMarkOf (marks.drop 2).toString else some []
    let marks ← if marks.startsWith "m:" then some [] else parseNatList marks
    let viaSearch := !markTab.isEmpty
    let markOf : Nat → Bytes → Option Bytes := fun rid _ =>
      match markTab.find? (fun e => e.1 == rid) with
      | some e => e.2
      | none => none
    let s := (xrun c ops).b.st
    let infoF : Key → (Option (Option Int)) × Nat := fun k =>
      match info.find? (fun e => e.1 == k) with
      | some e => e.2
      | none => (none, 0)
    let regs : List RegView := views s ph infoF
    let revF : Bytes → List String := fun w =>
      match rev.find? (fun e => window d e.1 == w) with
      | some e => e.2
      | none => []
    let v ← match tr with
      | "min" => some (wrapMin regs d)
      | "prefix" => some (wrapPrefixK CJ.Gen.prefixTable revF regs d)
      | "obfs4" => some (if viaSearch then CJ.WrapStream.wrapObfs4M markOf regs d else wrapObfs4 marks regs d)
      | _ => none
    some (showVerdict v)
  | _ => none

end CJ.Drv.Wrap
