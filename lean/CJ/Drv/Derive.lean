import CJ.Model.DeriveGen
import CJ.Base.HKDF
import CJ.Drv.Phantom
/-!
Driver for the derivation model (C01).

`derive|<side>|<secret hex>|<ver>|<gen>|<v6>|<transport>|<params>|<cfg>|<draws>`
   → `ok <seed> <addr> <port> <ident>` | `errKeys k` | `errAddr k` | `errPort k` | `errIdent k` | `panic`
  side = `station` | `client`; transport = min | obfs4 | prefix | dtls | unknown;
  params = `-` (field absent) | `g<0|1>` | `p<id>,<0|1>` | `d<0|1>`; cfg and draws as for `phantom|…`
  (the client side takes exactly one generation).
`dtlscred|<side>|<secret>|<ver>` → `<psk> <hello random>` (DTLS: pre-shared key of the handshake per side).
`sha256|<msg>`, `hmac|<key>|<msg>`, `hkdf|<secret>|<salt>|<info>|<n>`, `dtlshello|<secret>`: the Lean
crypto on its own (differential test against Go's crypto/sha256, crypto/hmac, x/crypto/hkdf and
pkg/dtls clientHelloRandomFromSeed).

Every stream is computed here with the Lean SHA-256: salts, info strings, labels and draw order of
the published derivation are pinned on this side.  X25519 is a parameter of the model; the driver
instantiates it with the identity, the harness shows the clamped private key instead of the public key.
-/
namespace CJ.Drv.Derive
open CJ.Phantom CJ.Port CJ.Derive CJ.Drv

def keySalt : String := "conjureconjureconjureconjure"

/-- general (slow) instantiation: every stream byte is recomputed from the start of its chain -/
def slowCrypto : Crypto where
  keyStream := fun secret => CJ.HKDF.reader (CJ.SHA256.ofList secret) keySalt.toUTF8 ByteArray.empty
  hk := { hk := fun seed info => CJ.HKDF.reader (CJ.SHA256.ofList seed) ByteArray.empty info.toUTF8, lim := CJ.HKDF.limit }
  hmac := fun secret label => CJ.SHA256.toList (CJ.SHA256.hmac (CJ.SHA256.ofList secret) label.toUTF8)
  x25519Base := id

/-- the first blocks of the three readers of one seed -/
structure SeedCache where
  seed : Bytes
  sub : ByteArray
  adr : ByteArray
  port : ByteArray

def mkSeedCache (seed : Bytes) : SeedCache :=
  let prk := CJ.HKDF.extract ByteArray.empty (CJ.SHA256.ofList seed)
  { seed := seed, sub := CJ.HKDF.okm prk labelSubnet.toUTF8 2, adr := CJ.HKDF.okm prk labelAddr.toUTF8 2,
    port := CJ.HKDF.okm prk labelPort.toUTF8 1 }

def SeedCache.get? (c : SeedCache) (seed : Bytes) (info : String) (j : Nat) : Option UInt8 :=
  if seed != c.seed then none
  else if info == labelSubnet then (if j < c.sub.size then some (c.sub.get! j) else none)
  else if info == labelAddr then (if j < c.adr.size then some (c.adr.get! j) else none)
  else if info == labelPort then (if j < c.port.size then some (c.port.get! j) else none)
  else none

/-- The same functions as `slowCrypto`, with the first blocks of the streams of *this* registration
computed once (`ks`: key stream of `secret`; `cA`, `cB`: the readers of the two places the seed can
sit).  Anything outside the caches falls back to `slowCrypto`, so the caches cannot change an answer. -/
def cryptoFor (secret : Bytes) (ks : ByteArray) (cA cB : Thunk SeedCache) : Crypto where
  keyStream := fun sec j =>
    if sec == secret && j < ks.size then ks.get! j else slowCrypto.keyStream sec j
  hk := { hk := fun seed info j =>
            match cA.get.get? seed info j with
            | some b => b
            | none =>
              match cB.get.get? seed info j with
              | some b => b
              | none => slowCrypto.hk.hk seed info j
          lim := CJ.HKDF.limit }
  hmac := slowCrypto.hmac
  x25519Base := id

def parseTransport : String → Option Transport
  | "min" => some .min | "obfs4" => some .obfs4 | "prefix" => some .prefix | "dtls" => some .dtls
  | "unknown" => some .unknown | _ => none

def parseWire (s : String) : Option (Option Wire) :=
  if s == "-" then some none else
  match s.toList with
  | 'g' :: rest => do some (some (.generic (← parseBool (String.ofList rest))))
  | 'd' :: rest => do some (some (.dtls (← parseBool (String.ofList rest))))
  | 'p' :: rest =>
    match (String.ofList rest).splitOn "," with
    | [id, r] => do some (some (.prefix (← id.toInt?) (← parseBool r)))
    | _ => none
  | _ => none

def perrName : PErr → String
  | .unknownTransport => "unknownTransport" | .notSupported => "notSupported"
  | .unknownPrefix => "unknownPrefix" | .badParams => "badParams"

def showD : DOut → String
  | .ok r => s!"ok {toHex r.seed} {toHex r.addr} {r.port} {toHex r.ident}"
  | .errKeys e => "errKeys " ++ Phantom.errName e
  | .errAddr e => "errAddr " ++ Phantom.errName e
  | .errPort e => "errPort " ++ perrName e
  | .errIdent e => "errIdent " ++ Phantom.errName e
  | .panic _ => "panic"

def handle (args : List String) : Option String :=
  match args with
  | [side, secret, ver, gen, v6, tr, params, cfg, draws] => do
    let r : Reg := { secret := ← parseHex secret, ver := ← ver.toNat?, gen := ← gen.toNat?, v6 := ← parseBool v6,
                     transport := ← parseTransport tr, params := ← parseWire params }
    let cfg ← Phantom.parseCfg cfg
    let d ← Phantom.parseDraws draws
    let ks := CJ.HKDF.firstBytes (CJ.SHA256.ofList r.secret) keySalt.toUTF8 ByteArray.empty 192
    let cA : Thunk SeedCache := Thunk.mk fun _ => mkSeedCache (ks.extract 0 16).data.toList
    let cB : Thunk SeedCache := Thunk.mk fun _ => mkSeedCache (ks.extract 104 120).data.toList
    let crypto := cryptoFor r.secret ks cA cB
    match side with
    | "station" => do some (showD (← Phantom.runBoth d (stationDerive crypto genConsts cfg r)))
    | "client" =>
      match cfg.gens with
      | [(_, some gc)] => do some (showD (← Phantom.runBoth d (clientDerive crypto genConsts gc r)))
      | _ => none
    | _ => none
  | _ => none

def handleSha (args : List String) : Option String :=
  match args with
  | [m] => do some (toHex (CJ.SHA256.hashL (← parseHex m)))
  | _ => none

def handleHmac (args : List String) : Option String :=
  match args with
  | [k, m] => do some (toHex (CJ.SHA256.hmacL (← parseHex k) (← parseHex m)))
  | _ => none

def handleHkdf (args : List String) : Option String :=
  match args with
  | [secret, salt, info, n] => do
    some (toHex (CJ.SHA256.toList (CJ.HKDF.firstBytes (CJ.SHA256.ofList (← parseHex secret))
      (CJ.SHA256.ofList (← parseHex salt)) (CJ.SHA256.ofList (← parseHex info)) (← n.toNat?))))
  | _ => none

/-- `clientHelloRandomFromSeed`: `hkdf.New(sha256.New, secret, "clientHelloRandomFromSeed", nil)`,
`handshake.RandomBytesLength` = 28 bytes -/
def handleDtlsHello (args : List String) : Option String :=
  match args with
  | [secret] => do
    some (toHex (CJ.SHA256.toList (CJ.HKDF.firstBytes (CJ.SHA256.ofList (← parseHex secret))
      "clientHelloRandomFromSeed".toUTF8 ByteArray.empty 28)))
  | _ => none

/-- `dtlscred|<side>|<secret>|<ver>` → `<psk> <hello random>`: the pre-shared key each side hands to the
DTLS handshake and the ClientHello random derived from it (Lean HKDF) -/
def handleDtlsCred (args : List String) : Option String :=
  match args with
  | [side, secret, ver] => do
    let secret ← parseHex secret
    let ver ← ver.toNat?
    let hello : Bytes → Bytes := fun psk => CJ.SHA256.toList (CJ.HKDF.firstBytes (CJ.SHA256.ofList psk)
      "clientHelloRandomFromSeed".toUTF8 ByteArray.empty 28)
    let cred ← match side with
      | "station" => some (dtlsCred hello (stationDtlsPsk secret))
      | "client" =>
        match specClientKeys slowCrypto ver secret with
        | .ok keys => some (dtlsCred hello (clientDtlsPsk secret keys))
        | _ => none
      | _ => none
    some s!"{toHex cred.psk} {toHex cred.helloRandom}"
  | _ => none

end CJ.Drv.Derive
