import CJ.Model.Config
import CJ.Gen.C19Sources
import CJ.Drv.Liveness
/-! Driver for the configuration model.
* `load|<decode>|<block>|<domains>|<phantom>|<allow>|<public 0/1>|<ifaces>`
    decode: `E` (decoder error), `N` (no registration key: RegConfig nil) or `R`; lists: one letter per entry,
    `o` parses / `e` error / `p` parser panics (`-` = empty list); ifaces: `E` or the number of interface subnets
  → `ok b=<n> d=<n> p=<n> a=<n> allow=<0/1>` | `err` | `panic`
* `reload|<conf>,<sel>,<geo>;…`   conf: `o`/`e`/`p`, sel: `o`/`e`, geo: `o`/`m`/`e`
  → per event `s<i>p<i>g<i>` (index of the reload that last replaced selector / policies / GeoIP, 0 = start-up) or `panic`
* `stats|<durLive>|<capLive>|<durNonLive>|<capNonLive>|<ops>` (fields as for `cache|…`)
  → `<construction>|ok <liveLen> <nonLiveLen>` | `…|panic` -/
namespace CJ.Drv.Config
open CJ.Config CJ.Drv

def parseEntries (s : String) : Option (List String) :=
  if s == "-" then some [] else
  s.toList.mapM fun c => if c == 'o' || c == 'e' || c == 'p' then some (String.singleton c) else none

/-- the parser oracle of the driver: the entry *is* its recorded outcome -/
def oracle (s : String) : Outcome Unit :=
  if s == "o" then .ok () else if s == "p" then .panic else .err

def showLoad : Outcome (Parsed Unit Unit) → String
  | .ok p => s!"ok b={p.block.length} d={p.domains.length} p={p.phantom.length} a={p.allow.length} allow={showBool p.enableAllow}"
  | .err => "err"
  | .panic => "panic"

def handleLoad (args : List String) : Option String :=
  match args with
  | [dec, b, d, p, a, pub, ifs] => do
    let raw : Raw := { block := ← parseEntries b, domains := ← parseEntries d, phantom := ← parseEntries p,
                       allow := ← parseEntries a, publicAddrs := ← parseBool pub }
    let ifaces ← (if ifs == "E" then some none else (ifs.toNat?).map fun n => some (List.replicate n ()))
    let decoded ← (if dec == "E" then some Decoded.err else if dec == "N" then some (Decoded.ok none)
      else if dec == "R" then some (Decoded.ok (some raw)) else none)
    some (showLoad (parseConfig oracle oracle ifaces decoded))
  | _ => none

def parseEvent (i : Nat) (s : String) : Option (Outcome Nat × Option Nat × GeoLoad Nat) :=
  match s.splitOn "," with
  | [c, sl, g] => do
    let conf ← (if c == "o" then some (Outcome.ok i) else if c == "e" then some .err else if c == "p" then some .panic else none)
    let sel ← (if sl == "o" then some (some i) else if sl == "e" then some none else none)
    let geo ← (if g == "o" then some (GeoLoad.ok i) else if g == "m" then some (.missing i) else if g == "e" then some .err else none)
    some (conf, sel, geo)
  | _ => none

def handleReload (args : List String) : Option String :=
  match args with
  | [evs] => do
    let evs ← ((fields evs ";").zipIdx.mapM fun (s, i) => parseEvent (i + 1) s)
    let (_, outs) := evs.foldl (fun (acc : Option (Station Nat Nat Nat) × List String) ev =>
      match acc.1 with
      | none => (none, "panic" :: acc.2)
      | some st =>
        match reload st ev.1 ev.2.1 ev.2.2 with
        | .ok st' => (some st', s!"s{st'.selector}p{st'.policy}g{st'.geoip}" :: acc.2)
        | _ => (none, "panic" :: acc.2)) (some ⟨0, 0, 0⟩, [])
    some (joinWith ";" outs.reverse)
  | _ => none

/-! `reload2|<na>,<nh>,<np>|<ifaces>|<start conf>|<event>;<event>;…` — reload sequences with the decisions
of the address policies on a fixed probe set.
  conf: `<decode>,<block>,<domains>,<phantom>,<allow>,<public 0/1>`; a list is `-` or entries separated by `/`;
  an entry is `e` (does not parse), `p` (parser panics) or `o` followed by the `.`-separated indices of the probes
  it contains / matches (what the real `IPNet.Contains` / `MatchString` answered); ifaces: `E` or such a list;
  event: the six fields of a conf, then `<sel o/e>,<geo o/m/e>`.
→ `<start>;<event>;…`, start = `ok:<covert>:<domain>:<phantom>` (one 0/1 per probe: refused?), event =
  `s<i>g<i>:<covert>:<domain>:<phantom>` (index of the reload that last replaced selector / GeoIP) or `panic` -/

def parseTok (s : String) : Option (Outcome (List Nat)) :=
  if s == "e" then some .err else if s == "p" then some .panic else
  match s.toList with
  | 'o' :: rest =>
    if rest.isEmpty then some (.ok []) else
      (((String.ofList rest).splitOn ".").mapM (fun (x : String) => x.toNat?)).map Outcome.ok
  | _ => none

def parseToks (s : String) : Option (List String) :=
  if s == "-" then some [] else do
    let l := s.splitOn "/"
    let _ ← l.mapM parseTok       -- every entry must be well-formed
    some l

/-- the parser oracle of `reload2`: the entry is its recorded outcome (entries were validated by `parseToks`) -/
def tokOracle (s : String) : Outcome (List Nat) := (parseTok s).getD .err

abbrev Pol2 := Parsed (List Nat) (List Nat)

def parseConf2 (f : List String) (ifaces : Option (List (List Nat))) : Option (Outcome Pol2) :=
  match f with
  | [dec, b, d, p, a, pub] => do
    let raw : Raw := { block := ← parseToks b, domains := ← parseToks d, phantom := ← parseToks p,
                       allow := ← parseToks a, publicAddrs := ← parseBool pub }
    let decoded ← (if dec == "E" then some Decoded.err else if dec == "N" then some (Decoded.ok none)
      else if dec == "R" then some (Decoded.ok (some raw)) else none)
    some (parseConfig tokOracle tokOracle ifaces decoded)
  | _ => none

def vec (n : Nat) (f : Nat → Bool) : String :=
  String.ofList ((List.range n).map fun i => if f i then '1' else '0')

def decisions (na nh np : Nat) (pol : Pol2) : String :=
  let has : List Nat → Nat → Bool := fun n i => n.contains i
  vec na (pol.covertAddrBlocked has) ++ ":" ++ vec nh (fun i => pol.domains.any (fun r => r.contains i)) ++ ":" ++
    vec np (pol.phantomBlocked has)

def handleReload2 (args : List String) : Option String :=
  match args with
  | [ns, ifs, start, evs] => do
    let (na, nh, np) ← (match ns.splitOn "," with
      | [a, h, p] => do some (← a.toNat?, ← h.toNat?, ← p.toNat?)
      | _ => none)
    let ifaces : Option (List (List Nat)) ← (if ifs == "E" then some none else do
      let toks ← parseToks ifs
      let nets ← toks.mapM fun t => match parseTok t with | some (.ok n) => some n | _ => none
      some (some nets))
    let startPol ← (match ← parseConf2 (start.splitOn ",") ifaces with
      | .ok p => some p
      | _ => none)
    let evs ← ((fields evs ";").zipIdx.mapM fun (s, i) =>
      match s.splitOn "," with
      | [dec, b, d, p, a, pub, sl, g] => do
        let conf ← parseConf2 [dec, b, d, p, a, pub] ifaces
        let sel ← (if sl == "o" then some (some (i + 1)) else if sl == "e" then some none else none)
        let geo ← (if g == "o" then some (GeoLoad.ok (i + 1)) else if g == "m" then some (.missing (i + 1))
          else if g == "e" then some .err else none)
        some (conf, sel, geo)
      | _ => none)
    let (_, outs) := evs.foldl (fun (acc : Option (Station Nat Pol2 Nat) × List String) ev =>
      match acc.1 with
      | none => (none, "panic" :: acc.2)
      | some st =>
        match reload st ev.1 ev.2.1 ev.2.2 with
        | .ok st' => (some st', s!"s{st'.selector}g{st'.geoip}:{decisions na nh np st'.policy}" :: acc.2)
        | _ => (none, "panic" :: acc.2)) (some ⟨0, startPol, 0⟩, [])
    some (joinWith ";" (("ok:" ++ decisions na nh np startPol) :: outs.reverse))
  | _ => none

/-! `ingestsrc|<source number>|<phantom blocklisted 0/1>` → `refused` | `admitted`: the phantom-blocklist checks on
the way of a registration (`ValidateRegistration` early, `ingestRegistration` late), with the source sets of
`CJ/Gen/C19Sources.lean` -/
def handleIngestSrc (args : List String) : Option String :=
  match args with
  | [src, blocked] => do
    let s ← src.toNat?
    let b ← parseBool blocked
    some (if phantomAdmitted CJ.Gen.C19Sources.exemptEarly CJ.Gen.C19Sources.checkedLate s b then "admitted" else "refused")
  | _ => none

/-- an operation of a `stats|…` case: `q,<now>,<addr>,<port>,<probe 0/1>[,<error kind>]` or `c,<now>` (the statistics
printer only depends on which caches exist and how many entries they hold; the kind of a probe error is the
liveness model's subject and is ignored here) -/
def parseStatsOp (s : String) : Option CJ.Liveness.Op :=
  match s.splitOn "," with
  | ["q", now, a, port, p] => do
    let _ ← port.toNat?
    some (.query (← now.toInt?) a (← parseBool p))
  | ["q", now, a, port, p, _] => do
    let _ ← port.toNat?
    some (.query (← now.toInt?) a (← parseBool p))
  | ["c", now] => do some (.clear (← now.toInt?))
  | _ => none

def handleStats (args : List String) : Option String :=
  match args with
  | [dl, cl, dn, cn, ops] => do
    let cfg : CJ.Liveness.Config := { durLive := ← Liveness.parseDur dl, capLive := ← cl.toInt?,
                                      durNonLive := ← Liveness.parseDur dn, capNonLive := ← cn.toInt? }
    let ops ← (fields ops ";").mapM parseStatsOp
    let t0 := CJ.Liveness.new cfg
    let t := CJ.Liveness.runFrom t0.1 ops
    let r := match printStats t with
      | .ok (l, n) => s!"ok {l} {n}"
      | .err => "err"
      | .panic => "panic"
    some (Liveness.showNew t0 ++ "|" ++ r)
  | _ => none

end CJ.Drv.Config
