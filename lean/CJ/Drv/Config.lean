import CJ.Model.Config
import CJ.Drv.Liveness
/-! Driver for the configuration model.
* `load|<decode>|<block>|<domains>|<phantom>|<allow>|<public 0/1>|<ifaces>`
    decode: `E` (decoder error), `N` (no registration key: RegConfig nil) or `R`; lists: one letter per entry,
    `o` parses / `e` error / `p` parser panics (`-` = empty list); ifaces: `E` or the number of interface subnets
  → `ok b=<n> d=<n> p=<n> a=<n> allow=<0/1>` | `err` | `panic`
* `reload|<conf>,<sel>,<geo>;…`   conf: `o`/`e`/`p`, sel: `o`/`e`, geo: `o`/`m`/`e`
  → per event `s<i>p<i>g<i>` (index of the reload that last replaced selector / policies / GeoIP, 0 = start-up) or `panic`
* `stats|<durLive>|<capLive>|<durNonLive>|<capNonLive>|<ops>` (fields as for `cache|…`)
  → `<construction>|ok <liveLen> <nonLiveLen>` | `…|panic` -/
namespace CJ.Drv.Config
open CJ.Config CJ.Drv

def parseEntries (s : String) : Option (List String) :=
  if s == "-" then some [] else
  s.toList.mapM fun c => if c == 'o' || c == 'e' || c == 'p' then some (String.singleton c) else none

/-- the parser oracle of the driver: the entry *is* its recorded outcome -/
def oracle (s : String) : Outcome Unit :=
  if s == "o" then .ok () else if s == "p" then .panic else .err

def showLoad : Outcome (Parsed Unit Unit) → String
  | .ok p => s!"ok b={p.block.length} d={p.domains.length} p={p.phantom.length} a={p.allow.length} allow={showBool p.enableAllow}"
  | .err => "err"
  | .panic => "panic"

def handleLoad (args : List String) : Option String :=
  match args with
  | [dec, b, d, p, a, pub, ifs] => do
    let raw : Raw := { block := ← parseEntries b, domains := ← parseEntries d, phantom := ← parseEntries p,
                       allow := ← parseEntries a, publicAddrs := ← parseBool pub }
    let ifaces ← (if ifs == "E" then some none else (ifs.toNat?).map fun n => some (List.replicate n ()))
    let decoded ← (if dec == "E" then some Decoded.err else if dec == "N" then some (Decoded.ok none)
      else if dec == "R" then some (Decoded.ok (some raw)) else none)
    some (showLoad (parseConfig oracle oracle ifaces decoded))
  | _ => none

def parseEvent (i : Nat) (s : String) : Option (Outcome Nat × Option Nat × GeoLoad Nat) :=
  match s.splitOn "," with
  | [c, sl, g] => do
    let conf ← (if c == "o" then some (Outcome.ok i) else if c == "e" then some .err else if c == "p" then some .panic else none)
    let sel ← (if sl == "o" then some (some i) else if sl == "e" then some none else none)
    let geo ← (if g == "o" then some (GeoLoad.ok i) else if g == "m" then some (.missing i) else if g == "e" then some .err else none)
    some (conf, sel, geo)
  | _ => none

def handleReload (args : List String) : Option String :=
  match args with
  | [evs] => do
    let evs ← ((fields evs ";").zipIdx.mapM fun (s, i) => parseEvent (i + 1) s)
    let (_, outs) := evs.foldl (fun (acc : Option (Station Nat Nat Nat) × List String) ev =>
      match acc.1 with
      | none => (none, "panic" :: acc.2)
      | some st =>
        match reload st ev.1 ev.2.1 ev.2.2 with
        | .ok st' => (some st', s!"s{st'.selector}p{st'.policy}g{st'.geoip}" :: acc.2)
        | _ => (none, "panic" :: acc.2)) (some ⟨0, 0, 0⟩, [])
    some (joinWith ";" outs.reverse)
  | _ => none

def handleStats (args : List String) : Option String :=
  match args with
  | [dl, cl, dn, cn, ops] => do
    let cfg : CJ.Liveness.Config := { durLive := ← Liveness.parseDur dl, capLive := ← cl.toInt?,
                                      durNonLive := ← Liveness.parseDur dn, capNonLive := ← cn.toInt? }
    let ops ← (fields ops ";").mapM Liveness.parseOp
    let t0 := CJ.Liveness.new cfg
    let t := CJ.Liveness.runFrom t0.1 ops
    let r := match printStats t with
      | .ok (l, n) => s!"ok {l} {n}"
      | .err => "err"
      | .panic => "panic"
    some (Liveness.showNew t0 ++ "|" ++ r)
  | _ => none

end CJ.Drv.Config
