import CJ.Model.PhantomPort
import CJ.Drv.Util
/-!
Driver for the station's destination-port decision.

`dstport|<minVer>|<tp>|<ver>|<supportsRandom>`  →  `port <n>` | `err unknown-transport` | `err transport`

* tp: what the registered transport's own `GetDstPort(libVer, seed, params)` answers for the case
  (computed by the harness on the real transport): `-` (transport type not registered) | `p<port>` | `e`

Nothing is defaulted: an unparsable field gives `bad-op`.
-/
namespace CJ.Drv.PhantomPort
open CJ.PhantomPort CJ.Drv

def parseTp (s : String) : Option (Option TOut) :=
  if s == "-" then some none
  else if s == "e" then some (some .err)
  else if s.startsWith "p" then do some (some (.port (← (s.drop 1).toNat?)))
  else none

def handle : List String → Option String
  | [mv, tp, ver, sr] => do
    let r := getPhantomDstPort (← mv.toNat?) (← parseTp tp) (← ver.toNat?) (← parseBool sr)
    some (match r with
      | .port p => s!"port {p}"
      | .unknownTransport => "err unknown-transport"
      | .transportErr => "err transport")
  | _ => none

end CJ.Drv.PhantomPort
