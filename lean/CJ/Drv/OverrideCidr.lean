import CJ.Model.OverrideCidr
import CJ.Drv.Util
/-! Driver for the text of the subnet configuration (C12).

`cidr|<hex of the text>` → `E` (the decoder refuses it) | `<ip hex>/<mask hex>` (`Ipnet.UnmarshalText`).
`hexStr`: the text of a subnet token `T<hex>:…` of the registrar lines. -/
namespace CJ.Drv.OverrideCidr
open CJ.NetAddr CJ.OverrideCidr CJ.Drv

def hexStr (h : String) : Option Str := do
  let bs ← parseHex h
  (String.fromUTF8? (ByteArray.mk bs.toArray)).map String.toList

def bytesHex (b : List Nat) : String := toHex (b.map fun n => UInt8.ofNat n)

def handle (args : List String) : Option String :=
  match args with
  | [h] => do
    let s ← hexStr h
    match unmarshalText s with
    | none => some "E"
    | some n => some (bytesHex n.ip ++ "/" ++ bytesHex n.mask)
  | _ => none

end CJ.Drv.OverrideCidr
