import CJ.Model.ReloadEnv
import CJ.Drv.Util
/-!
Driver for the reload histories of C03.

`reloadenv|<init>|<tok>,<tok>,…`  →  `db=<label>;sel=<n>`   (`init` = `init`, or `empty` when the station
started with the empty database: pointers to that zero-size type cannot be told apart)

A token is four letters: configuration (`k` parses; `m` file missing, `t` not TOML, `b` a blocklist entry
that does not parse), subnet file (`k`; `m` missing, `t` not TOML), ASN database path and country
database path (`u` not set, `k` a file the reader opens; `m` missing, `d` a directory, `j` not a MaxMind
file, `x` truncated).  The label is the database in force after the history: `init` (the one the
station started with), `empty`, `mmdb`, `asnonly`, `cconly`; `sel` counts replacements of the phantom selector.
-/
namespace CJ.Drv.ReloadEnv
open CJ.ReloadEnv CJ.Drv

def parseOk (bad : List Char) : Char → Option Bool
  | 'k' => some true
  | c => if bad.contains c then some false else none

def parseFile : Char → Option FileSt
  | 'u' => some .unset
  | 'k' => some .opens
  | 'm' => some .broken | 'd' => some .broken | 'j' => some .broken | 'x' => some .broken
  | _ => none

def parseTok (s : String) : Option Req :=
  match s.toList with
  | [c, n, a, o] => do
    some { configOk := ← parseOk ['m', 't', 'b'] c, subnetsOk := ← parseOk ['m', 't'] n,
           files := { asn := ← parseFile a, cc := ← parseFile o } }
  | _ => none

def reader : Bool → Bool → String
  | true, true => "mmdb"
  | true, false => "asnonly"
  | false, true => "cconly"
  | false, false => "reader-without-files"

def handle (args : List String) : Option String :=
  match args with
  | [init, toks] => do
    let rs ← (fields toks ",").mapM parseTok
    if init != "init" && init != "empty" then none else
    let s := run "empty" reader ({ geo := init } : Station String) rs
    some s!"db={s.geo};sel={s.selector}"
  | _ => none

end CJ.Drv.ReloadEnv
