import CJ.Model.PhantomFlow
import CJ.Drv.Util
/-!
Driver for `NewRegistration`'s flow from the selected phantom to address and port.

`flow|<minVer>|<sel>|<tp>|<ver>`  →  `ok <addr hex> <port>` | `err select` | `err unknown-transport` |
`err params` | `err port`

* sel: `e` (Select answered an error) | `<addr hex>:<0|1>` (encoded address, SupportRandomPort())
* tp: `-` (transport not registered) | `x` (ParseParams error) | `p<port>` | `e` (GetDstPort error)
-/
namespace CJ.Drv.PhantomFlow
open CJ.PhantomFlow CJ.PhantomPort CJ.Phantom CJ.Drv

def parseSel (s : String) : Option (Option Addr) :=
  if s == "e" then some none else
  match s.splitOn ":" with
  | [a, f] => do some (some ⟨← parseHex a, ← parseBool f⟩)
  | _ => none

def parseTp (s : String) : Option Tp :=
  if s == "-" then some .unregistered
  else if s == "x" then some .paramsErr
  else if s == "e" then some (.ans .err)
  else if s.startsWith "p" then do some (.ans (.port (← (s.drop 1).toNat?)))
  else none

def handle : List String → Option String
  | [mv, sel, tp, ver] => do
    some (match newRegistration (← mv.toNat?) (← parseSel sel) (← parseTp tp) (← ver.toNat?) with
      | .ok r => s!"ok {toHex r.addr.bytes} {r.port}"
      | .selectErr => "err select"
      | .unknownTransport => "err unknown-transport"
      | .paramsErr => "err params"
      | .portErr => "err port")
  | _ => none

end CJ.Drv.PhantomFlow
