import CJ.Model.AssetsMem
import CJ.Drv.Util
/-! Driver for the in-memory model of the client's asset store.

`mem|<D>|<file0>/<file1>/…|<ev>;<ev>;…` →
`<res>~<ptr>~<conf in effect>~<file of a.path>;…|<heap>|<files>`

* configuration: `<gen>,<pub>,<decoys>,<subnets>,<rest>,<restOK>`; `-` = unset; decoys `[t+t+…]`
* file: `m` missing, `d=<conf>` written by a store, `j` unparsable, `j=<conf>` foreign bytes that parse;
  printed as `m` / `x` / `=<conf>` (what the real reader makes of it)
* events: `a:<conf>` `c:<p|nil>:<io>` `g:<n>:<io>` `k:<tok|->:<io>` `y:<decoys>:<io>` `s:<tok|->:<io>`
  `m:<p>:<n>` `D:<d>:<ex>` `I:<d>:<conf>` `t:<d>:<file>` `rg` `ri:<tok>` `rs:<default tok>` `rd` `rp` `rn` -/
namespace CJ.Drv.AssetsMem
open CJ.AssetsMem CJ.Drv

def parseOptTok (s : String) : Option (Option String) :=
  if s.isEmpty then none else if s == "-" then some none else some (some s)

def parseDecoys (s : String) : Option (Option (List String)) :=
  if s == "-" then some none
  else if s == "[]" then some (some [])
  else if s.startsWith "[" && s.endsWith "]" && s.length > 2 then
    let inner := ((s.drop 1).dropEnd 1).toString
    let toks := inner.splitOn "+"
    if toks.any (·.isEmpty) then none else some (some toks)
  else none

def parseConf (s : String) : Option Conf :=
  match s.splitOn "," with
  | [g, p, d, sn, r, ok] => do
    let g ← if g == "-" then some none else g.toNat?.map some
    let p ← parseOptTok p
    let d ← parseDecoys d
    let sn ← parseOptTok sn
    if r.isEmpty then none
    let ok ← parseBool ok
    some ⟨g, p, d, sn, r, ok⟩
  | _ => none

def parseFile (s : String) : Option File :=
  if s == "m" then some .missing
  else if s == "j" then some (.junk none)
  else if s.startsWith "d=" then (parseConf (s.drop 2).toString).map .data
  else if s.startsWith "j=" then (parseConf (s.drop 2).toString).map (fun c => .junk (some c))
  else none

def parseEv (s : String) : Option Ev :=
  match s.splitOn ":" with
  | ["a", c] => (parseConf c).map .alloc
  | ["c", p, io] => do
    let io ← parseBool io
    if p == "nil" then some (.setConf none io) else p.toNat?.map (fun q => .setConf (some q) io)
  | ["g", n, io] => do some (.setGen (← n.toNat?) (← parseBool io))
  | ["k", t, io] => do some (.setPub (← parseOptTok t) (← parseBool io))
  | ["y", d, io] => do
    match ← parseDecoys d with
    | none => none
    | some ds => some (.setDecoys ds (← parseBool io))
  | ["s", t, io] => do some (.setSubnets (← parseOptTok t) (← parseBool io))
  | ["m", p, n] => do some (.mutate (← p.toNat?) (← n.toNat?))
  | ["D", d, ex] => do some (.setDir (← d.toNat?) (← parseBool ex))
  | ["I", d, c] => do some (.init (← d.toNat?) (← parseConf c))
  | ["t", d, f] => do some (.tamper (← d.toNat?) (← parseFile f))
  | ["rg"] => some (.read .getGen)
  | ["ri", t] => if t.isEmpty then none else some (.read (.isDecoy t))
  | ["rs", t] => if t.isEmpty then none else some (.read (.subnets t))
  | ["rd"] => some (.read .dnsReg)
  | ["rp"] => some (.read .ptr)
  | ["rn"] => some (.read .nDecoys)
  | _ => none

def showOptTok : Option String → String
  | none => "-"
  | some t => t

def showConf (c : Conf) : String :=
  let g := match c.gen with | none => "-" | some n => toString n
  let d := match c.decoys with | none => "-" | some l => "[" ++ joinWith "+" l ++ "]"
  s!"{g},{showOptTok c.pub},{d},{showOptTok c.subnets},{c.rest},{showBool c.restOK}"

def showFile (f : File) : String :=
  match decode f with
  | some c => "=" ++ showConf c
  | none => match f with | .missing => "m" | _ => "x"

def showRes : Res → String
  | .ok => "ok" | .err => "err" | .panic => "panic" | .val s => "v:" ++ s

def showPtr : Option Nat → String
  | none => "nil" | some p => toString p

/-- the configuration in effect: nil, or the object `a.config` points to -/
def showVal (s : St) : Option String :=
  match s.cfg with
  | none => some "nil"
  | some p => (s.heap[p]?).map showConf

def runShow (s : St) : List Ev → Option (St × List String)
  | [] => some (s, [])
  | e :: es => do
    let (s', r) ← step s e
    let v ← showVal s'
    let line := s!"{showRes r}~{showPtr s'.cfg}~{v}~{showFile (s'.disk s'.path)}"
    let (s'', ls) ← runShow s' es
    some (s'', line :: ls)

def handle (args : List String) : Option String :=
  match args with
  | [d, files, evs] => do
    let d ← d.toNat?
    let fs ← (files.splitOn "/").mapM parseFile
    if fs.length != d then none
    let evs ← (evs.splitOn ";").mapM parseEv
    let disk : Nat → File := fun i => match fs[i]? with | some f => f | none => .missing
    let s0 : St := { heap := [], cfg := none, path := 0, disk := disk }
    let (s, ls) ← runShow s0 evs
    let heap := if s.heap.isEmpty then "-" else joinWith "/" (s.heap.map showConf)
    let files := joinWith "/" ((List.range d).map (fun i => showFile (s.disk i)))
    some s!"{joinWith ";" ls}|{heap}|{files}"
  | _ => none

end CJ.Drv.AssetsMem
