import CJ.Model.PacketPath
import CJ.Drv.Detector
/-! Driver for the packet-path model (C10 growth).

`c10p|<filter>|<step>;<step>;…` — one detector (`FlowTracker` with an empty session map, no tracked
flows) handles the steps in order; `<filter>` is `-` or a comma-separated list of addresses (`4.<hex>` /
`6.<hex>`): the entries of `filter_list` that are the canonical text of an address.  Every step carries
a `<now>@` prefix.  A step is a station message (syntax of `c10|`: `R,…`, `C`, `M,…`), `S`
(`drop_all_stale_flows`) or a packet
`P,<4|6>,<src hex>,<dst hex>,<next header>,<l4 parsed 0|1>,<sport>,<dport>,<flags>,<payload hex | ->`.
Answers: `msg:<sessions>/<expiry under the session's tag | ->`, `sweep:<dropped>/<sessions>/<tracked>/<drops>`,
`pkt:<effects | ->/<sessions>/<expiry under the flow's tag | ->/<tracked>/<flow tracked 0|1>/<drops>`
(effects: `f` forwarded, `t` tag search, `c` connect test string, `u` UDP test string). -/
namespace CJ.Drv.PacketPath
open CJ.Detector CJ.PacketPath CJ.Drv

inductive Step
  | msg (m : S2D)
  | sweep
  | pkt (p : Pkt)

def parsePayload (s : String) : Option Bytes := if s == "-" then some [] else parseHex s

def parseBody (s : String) : Option Step :=
  match s.splitOn "," with
  | ["S"] => some .sweep
  | ["P", fam, src, dst, nh, l4, sport, dport, flags, pl] => do
    let s ← parseHex src
    let d ← parseHex dst
    let hdr ← (if fam == "4" then (if s.length = 4 ∧ d.length = 4 then some (Hdr.v4 s d) else none)
               else if fam == "6" then (if s.length = 16 ∧ d.length = 16 then some (Hdr.v6 s d) else none)
               else none)
    let sp ← sport.toNat?
    let dp ← dport.toNat?
    let fl ← flags.toNat?
    if sp ≥ 65536 ∨ dp ≥ 65536 ∨ fl ≥ 256 then none
    else some (.pkt { hdr := hdr, nh := ← nh.toNat?, l4ok := ← parseBool l4, sport := sp, dport := dp, flags := fl,
                      payload := ← parsePayload pl })
  | _ => (Detector.parseMsg s).map .msg

def parseStep (s : String) : Option (Nat × Step) :=
  match s.splitOn "@" with
  | [t, body] => do some (← t.toNat?, ← parseBody body)
  | _ => none

def parseFilter (s : String) : Option (List IpAddr) :=
  if s == "-" then some [] else (fields s ",").mapM Detector.parseAddr

def showEff : Eff → String
  | .fwd => "f" | .tagCheck => "t" | .connTest => "c" | .udpTest => "u"

def showVal (m : Map) (k : Key) : String :=
  match m.get? k with
  | some v => toString v
  | none => "-"

def step (filter : List IpAddr) (acc : St × List String) (x : Nat × Step) : St × List String :=
  let (st, outs) := acc
  let now := x.1
  match x.2 with
  | .msg m =>
    let st' := (stepEvt filter st (.msg now m)).1
    let val := match convert m with
      | .ok s => showVal st'.sessions (.tag (tagOf s))
      | .error _ => "-"
    (st', s!"msg:{st'.sessions.length}/{val}" :: outs)
  | .sweep =>
    let r := sweepAll now st
    (r.1, s!"sweep:{r.2}/{r.1.sessions.length}/{r.1.tracked.length}/{r.1.drops.length}" :: outs)
  | .pkt p =>
    let r := processPacket filter now st p
    let effs := if r.2.isEmpty then "-" else String.join (r.2.map showEff)
    let f := flowOf p p.nh
    (r.1, s!"pkt:{effs}/{r.1.sessions.length}/{showVal r.1.sessions (.tag (flowTag (lookupFlow p)))}/{r.1.tracked.length}/{showBool (r.1.tracked.contains f)}/{r.1.drops.length}" :: outs)

def handle (args : List String) : Option String :=
  match args with
  | [flt, steps] => do
    let filter ← parseFilter flt
    let ss ← (fields steps ";").mapM parseStep
    let r := ss.foldl (step filter) ({ sessions := [], tracked := [], drops := [] }, [])
    some (joinWith ";" r.2.reverse)
  | _ => none

end CJ.Drv.PacketPath
