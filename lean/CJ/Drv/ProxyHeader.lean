import CJ.Model.ProxyHeader
import CJ.Drv.Util
/-! `proxyhdr|<hex of the peer address text (ASCII)>` → `err` or the hex of the line handed to `Write`. -/
namespace CJ.Drv.ProxyHeader
open CJ.ProxyHeader CJ.Drv

def handle (args : List String) : Option String :=
  match args with
  | [a] => do
    let bs ← parseHex a
    if bs.any (fun b => b.toNat ≥ 128) then none else
    let addr : List Char := bs.map (fun b => Char.ofNat b.toNat)
    match headerLine addr with
    | none => some "err"
    | some l => some (toHex (l.map (fun c => UInt8.ofNat c.toNat)))
  | _ => none

end CJ.Drv.ProxyHeader
