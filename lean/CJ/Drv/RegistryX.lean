import CJ.Model.RegistryX
import CJ.Drv.Registry
/-! Driver for extended registry histories.
`registryx|<unusedT>|<activeT>|<enabled>|<op>;<op>;…` → `<out>;<out>;…|D:<decoys>|T:<timeouts>|P:<buckets>|U:<open tunnels>`

Operations: every operation of `CJ.Drv.Registry.parseOp`, and
* `to,<ph>,<id>,<tr>,<now>,<prior>` / `ro,…` — Track / register handed an object whose `Valid` flag is
  `<prior>`: `0` / `1` (a new object) or `r0` / `r1` (the object that was delivered for this registration
  before, flag as it is now); the model ignores which object it is;
* `P,<ph>,<id>` / `Q,<ph>,<id>` — a tunnel on the registration is opened (Proxy entered) / finishes;
* `B,<t|r|m>,<ph>,<prefix>,<start>,<n>,<tr>,<now>` — a burst of `n` track / register / markActive
  operations for the identifiers `<prefix><start>` … ; the answer is `bulk <out>=<count> …`;
* `sb,<now>` / `xs,<ph>,<id>,<ph>,<id>,…` / `se` — one sweep in pieces: collection; the removal loop has
  handled these indices; the loop handles the rest.

The head of an operation may carry an annotation `@…` (`m@w,…`, `sb@r2,…`): the operation arrived while a
stand-in held the registry's read (`r`) / write (`w`) lock — for a sweep from its start or from its n-th
scheduling point on.  The model's operations are atomic and an operation that waits is the same
operation, so the annotation is dropped here; that no acquisition of the registry lock can refuse is the
regenerated fact `CJ.Gen.registryLockAcquisitions` (`C08.registry_lock_never_refuses`). -/
namespace CJ.Drv.RegistryX
open CJ.Registry CJ.Drv

def parsePrior (s : String) : Option Bool :=
  if s == "0" || s == "r0" then some false
  else if s == "1" || s == "r1" then some true
  else none

def parsePairs : List String → Option (List Key)
  | [] => some []
  | [_] => none
  | ph :: id :: rest => (parsePairs rest).map fun l => (ph, id) :: l

/-- drop the `@…` annotation of the head token -/
def stripAnnotation (toks : List String) : List String :=
  match toks with
  | [] => []
  | h :: t => ((h.splitOn "@").headD h) :: t

def parseXOp (s : String) : Option XOp :=
  match stripAnnotation (s.splitOn ",") with
  | ["to", ph, id, tr, now, pv] => do some (.trackObj (ph, id) (← tr.toNat?) (← now.toNat?) (← parsePrior pv))
  | ["ro", ph, id, tr, now, pv] => do some (.registerObj (ph, id) (← tr.toNat?) (← now.toNat?) (← parsePrior pv))
  | ["P", ph, id] => some (.tunnel (ph, id))
  | ["Q", ph, id] => some (.tunnelEnd (ph, id))
  | ["B", kind, ph, pre, start, n, tr, now] => do
    let k ← (if kind == "t" then some 0 else if kind == "r" then some 1 else if kind == "m" then some 2 else none)
    some (.bulk k ph pre (← start.toNat?) (← n.toNat?) (← tr.toNat?) (← now.toNat?))
  | ["sb", now] => do some (.sweepBegin (← now.toNat?))
  | ["se"] => some .sweepEnd
  | "xs" :: ks => (parsePairs ks).map .sweepSome
  | toks => (Registry.parseOp (joinWith "," toks)).map .base

/-- `a a b c c c` → `a=2 b=1 c=3` (input sorted) -/
def histogram (l : List String) : List String :=
  let rec go : List String → Option (String × Nat) → List String → List String
    | [], none, acc => acc.reverse
    | [], some (s, n), acc => (s!"{s}={n}" :: acc).reverse
    | x :: xs, none, acc => go xs (some (x, 1)) acc
    | x :: xs, some (s, n), acc => if x == s then go xs (some (s, n + 1)) acc else go xs (some (x, 1)) (s!"{s}={n}" :: acc)
  go l none []

def showOuts (op : XOp) (outs : List Out) : String :=
  match op with
  | .bulk .. => joinWith " " ("bulk" :: histogram (sortStrings (outs.map Registry.showOut)))
  | _ => joinWith " " (outs.map Registry.showOut)

def parseCfg (u a en : String) : Option Cfg := do
  some { unusedT := ← u.toNat?, activeT := ← a.toNat?, enabled := ← parseNatList en }

def parseOps (ops : String) : Option (List XOp) := (fields ops ";").mapM parseXOp

def handle (args : List String) : Option String :=
  match args with
  | [u, a, en, ops] => do
    let c ← parseCfg u a en
    let ops ← parseOps ops
    let (x, outs) := ops.foldl (fun (acc : XSt × List String) o =>
      let (x', out) := xstep c acc.1 o
      (x', showOuts o out :: acc.2)) (xinit, [])
    some (joinWith ";" outs.reverse ++ "|" ++ Registry.dump x.b.st ++ "|P:" ++ joinWith "," (sortStrings x.b.buckets)
      ++ "|U:" ++ joinWith "/" (sortStrings (x.tunnels.map fun k => k.1 ++ "," ++ k.2)))
  | _ => none

end CJ.Drv.RegistryX
