import CJ.Model.BdReq
import CJ.Drv.Util
/-! Driver for the API registrar's request path (C13, harness in pkg/regserver/apiregserver).

`bdreq|<b/u>|addr|post|clen|decodes|payload|gen|v4|v6|sel4|sel6|transport|params|secretLen|send|cc|snap|sel1|sel2`

booleans `0/1`; `sel4`/`sel6`: `ok`, `other`, `missing`, `v0`, `addrsel`; `cc`: the server's ClientConf
generation or `-` (none); `snap`/`sel1`/`sel2`: the selector installed when the snapshot is taken / when the first
/ when the second selection runs, each `<version>:<generations separated by .>`.

Answer: `status=<n> v4=<ver or -> v6=<ver or -> cc=<gen or -> body=<0/1> called=<0/1> asked=<4|6>:<gen>:<ver>,… sent=<0/1>` -/
namespace CJ.Drv.BdReq
open CJ.BdReq CJ.Drv

def parseSel : String → Option SelOut
  | "ok" => some .ok
  | "other" => some (.err .other)
  | "missing" => some (.err .legacyMissing)
  | "v0" => some (.err .legacyV0)
  | "addrsel" => some (.err .legacyAddrSel)
  | _ => none

def parseSnap (s : String) : Option Snap :=
  match s.splitOn ":" with
  | [v, gs] => do
    let v ← v.toNat?
    let gs ← parseNatList gs "."
    some ⟨v, gs⟩
  | _ => none

def showOpt : Option Nat → String
  | some n => toString n
  | none => "-"

def showAsk (a : Ask) : String :=
  (if a.v6 then "6" else "4") ++ ":" ++ toString a.gen ++ ":" ++ toString a.ver

def showAns (a : Ans) : String :=
  let r : Resp := match a.body with | some r => r | none => {}
  s!"status={a.status} v4={showOpt r.v4} v6={showOpt r.v6} cc={showOpt r.cc} body={showBool a.body.isSome} called={showBool a.called} asked={joinWith "," (a.asked.map showAsk)} sent={showBool a.sent}"

def handle : List String → Option String
  | [kind, addr, post, clen, dec, payload, gen, v4, v6, sel4, sel6, tr, params, slen, send, cc, s0, s1, s2] => do
    let bidi ← match kind with | "b" => some true | "u" => some false | _ => none
    let r : Req := {
      bidi := bidi, addr := ← parseBool addr, post := ← parseBool post, clen := ← clen.toNat?,
      decodes := ← parseBool dec, payload := ← parseBool payload, gen := ← gen.toNat?,
      v4 := ← parseBool v4, v6 := ← parseBool v6, sel4 := ← parseSel sel4, sel6 := ← parseSel sel6,
      transport := ← parseBool tr, params := ← parseBool params, secretLen := ← slen.toNat?,
      send := ← parseBool send }
    let cc ← if cc == "-" then some none else (cc.toNat?).map some
    let tl : Timeline := ⟨← parseSnap s0, ← parseSnap s1, ← parseSnap s2⟩
    some (showAns (api cc tl r))
  | _ => none

end CJ.Drv.BdReq
