import CJ.Model.ConnStats
import CJ.Drv.ConnHandler
/-!
Driver for the statistics transitions of one connection (C03).

`connstats|<geo>|<count>|<tids>|<events>|<passes>|<family 4/6>|<country code valid 0/1>`
  as `conn|…` (see `CJ/Drv/ConnHandler.lean`), data events reduced to their length: `n<len>`
→ `tot4=…;tot6=…;asn4=…;asn6=…`: the transitions counted in the family totals and in the per-ASN record of
  each family during this connection, `name*count` sorted by name.
-/
namespace CJ.Drv.ConnStats
open CJ.ConnHandler CJ.ConnStats CJ.Drv CJ.Drv.ConnHandler

def parseEvN (s : String) : Option Ev :=
  if s == "eof" then some .eof
  else if s == "rst" then some .reset
  else if s == "to" then some .deadline
  else if s == "err" then some .otherErr
  else if s.startsWith "n" then ((s.drop 1).toString.toNat?).map fun n => .data (List.replicate n 0)
  else none

def trName : Tr → String
  | .addCreated => "addCreated"
  | .createdToDiscard => "createdToDiscard" | .createdToCheck => "createdToCheck" | .createdToReset => "createdToReset"
  | .createdToTimeout => "createdToTimeout" | .createdToError => "createdToError" | .createdToClose => "createdToClose"
  | .readToCheck => "readToCheck" | .readToTimeout => "readToTimeout" | .readToReset => "readToReset"
  | .readToError => "readToError"
  | .checkToCreated => "checkToCreated" | .checkToRead => "checkToRead" | .checkToFound => "checkToFound"
  | .checkToError => "checkToError" | .checkToDiscard => "checkToDiscard"
  | .discardToReset => "discardToReset" | .discardToTimeout => "discardToTimeout" | .discardToError => "discardToError"
  | .discardToClose => "discardToClose"

def tally (l : List Tr) : String :=
  let names := l.map trName
  let uniq := names.foldl (fun acc x => if acc.contains x then acc else acc ++ [x]) []
  joinWith "," (sortStrings (uniq.map fun n => s!"{n}*{(names.filter (· == n)).length}"))

def handle (args : List String) : Option String :=
  match args with
  | [geo, count, tids, events, passes, fam, ccv] => do
    let geo ← parseGeo geo
    let count ← count.toNat?
    let ts ← parseNatList tids
    let evs ← (fields events ";").mapM parseEvN
    let ps ← (fields passes ";").mapM parsePass
    let v4 ← (if fam == "4" then some true else if fam == "6" then some false else none)
    let ccValid ← parseBool ccv
    let lens := cumLens 0 evs
    if ps.length > lens.length then none else
    let obs : Obs := ((ps.zip lens).map fun (p, l) => p.map fun (t, v) => (t, l, v)).flatten
    if !consistent obs then some "inconsistent" else
    let cls : Nat → Bytes → Verdict Nat := fun t buf => (lookup obs t buf.length).getD .err
    let order : Nat → List Nat := fun i => ((ps[i]?).getD []).map (·.1)
    let sched : Nat → List Nat → List Nat := fun i ts =>
      let o := order i
      eraseDupsNat (o.filter (ts.contains ·)) ++ ts.filter (!o.contains ·)
    let src : Src := { v4 := v4, ccValid := ccValid, asn := 1 }
    let s := (handlerS cls sched (Stats.count src) geo count ts evs ({} : Stats)).2
    let recOf (l : List (Nat × Tr)) : List Tr := (l.filter (·.1 == 1)).map (·.2)
    some s!"tot4={tally s.tot4};tot6={tally s.tot6};asn4={tally (recOf s.rec4)};asn6={tally (recOf s.rec6)}"
  | _ => none

end CJ.Drv.ConnStats
