import CJ.Model.SctpConn
import CJ.Model.Heartbeat
import CJ.Drv.Util
/-! Driver for the byte-stream models of C16.

* `sctp|<maxMsg>|<endErr>|<items>|<sizes>` — `SCTPConn.Read` calls with the given buffer sizes over a
  scripted stream; `items` = `;`-separated `<hex>:<err>` (`err` ∈ `-` eof timeout short closed other).
  Answer: `;`-separated `<hex>:<err>` per read.
* `hbsctp|<maxMsg>|<hb>|<items>|<sizes>` — the same through the heartbeat filter (`hbConn`); `hb` is the
  *configured* payload: hex, or `nil:<default hex>` (none configured) / `empty:<default hex>` (an empty one
  configured); the filter works with `validate` of it.
* `flow|<max>|<ops>` — write flow control; ops `,`-separated: `w<n>` `d<k>` `h<n>` `c`, and `t<ms>`:
  that much time passes with the network as it is (every wake-up source that time or anything else but
  `Close` and the buffered-amount-low notification could make ready fires: `GOp.fire`).
  Answer: one outcome per op, then `B=<buffered>`, `T=<token>`.
* `wd|<T>|<events>` — watchdog; events as characters `t` (tick) `h` (heartbeat) `l` (lost heartbeat)
  `d` (data).  Answer: `closed=<0|1>`. -/
namespace CJ.Drv.SctpConn
open CJ.SctpConn CJ.Heartbeat CJ.Drv

def parseErr (s : String) : Option (Option Err) :=
  if s == "-" then some none
  else if s == "eof" then some (some .eof)
  else if s == "timeout" then some (some .timeout)
  else if s == "short" then some (some .short)
  else if s == "closed" then some (some .closed)
  else if s == "other" then some (some .other)
  else none

def showErr : Option Err → String
  | none => "-"
  | some .eof => "eof"
  | some .timeout => "timeout"
  | some .short => "short"
  | some .closed => "closed"
  | some .other => "other"

def parseItem (s : String) : Option Item :=
  match s.splitOn ":" with
  | [h, e] => do some ⟨← parseHex h, ← parseErr e⟩
  | _ => none

def showRes (rs : List (Bytes × Option Err)) : String :=
  if rs.isEmpty then "none" else joinWith ";" (rs.map fun r => toHex r.1 ++ ":" ++ showErr r.2)

def handleSctp (args : List String) : Option String :=
  match args with
  | [mm, ee, items, sizes] => do
    let maxMsg ← mm.toNat?
    let endErr ← (← parseErr ee)
    let items ← (fields items ";").mapM parseItem
    let sizes ← parseNatList sizes
    some (showRes (reads maxMsg ⟨items, endErr⟩ sizes))
  | _ => none

/-- the configured payload, through `validate` -/
def parseHbConf (s : String) : Option Bytes :=
  match s.splitOn ":" with
  | [h] => do
    let hb ← parseHex h
    if hb.isEmpty then none else some hb      -- an explicit payload is never written empty
  | ["nil", d] => do some (validate (← parseHex d) none)
  | ["empty", d] => do some (validate (← parseHex d) (some []))
  | _ => none

def handleHb (args : List String) : Option String :=
  match args with
  | [mm, hb, items, sizes] => do
    let maxMsg ← mm.toNat?
    let hb ← parseHbConf hb
    let items ← (fields items ";").mapM parseItem
    let sizes ← parseNatList sizes
    some (showRes (reads maxMsg (filter hb maxMsg ⟨items, .eof⟩) sizes))
  | _ => none

def parseWOp (s : String) : Option WOp :=
  if s == "c" then some .close
  else if s.startsWith "w" then (s.drop 1).toString.toNat?.map .write
  else if s.startsWith "d" then (s.drop 1).toString.toNat?.map .drain
  else if s.startsWith "h" then (s.drop 1).toString.toNat?.map .hbWrite
  else none

/-- one harness op as model events; `t<ms>` fires the timer and the catch-all source -/
def parseGOps (s : String) : Option (List GOp) :=
  if s.startsWith "t" then (s.drop 1).toString.toNat?.map fun _ => [.fire .timer, .fire .other]
  else (parseWOp s).map fun o => [.op o]

def showWOut : WOut → String
  | .wrote n => s!"wrote:{n}"
  | .zero => "zero"
  | .limit => "limit"
  | .blocks => "blocks"
  | .closedErr => "closed"
  | .woke n => s!"woke:{n}"
  | .busy => "busy"
  | .none => "-"

def handleFlow (args : List String) : Option String :=
  match args with
  | [mx, ops] => do
    let max ← mx.toNat?
    let ops ← (fields ops ",").mapM parseGOps
    -- the outcome of an op is the outcome of its last event that has one
    let (s, outs) := ops.foldl (fun (acc : WState × List String) evs =>
      let (s', out) := evs.foldl (fun (a : WState × WOut) e =>
        let (s2, o2) := gstep sourceShape max a.1 e
        (s2, if o2 = .none then a.2 else o2)) (acc.1, WOut.none)
      (s', showWOut out :: acc.2)) (({} : WState), [])
    some (joinWith "," outs.reverse ++ s!"|B={s.buffered}|T={showBool s.token}")
  | _ => none

def parseEv (c : Char) : Option Ev :=
  if c == 't' then some .tick else if c == 'h' then some .hb
  else if c == 'l' then some .hbLost else if c == 'd' then some .data else none

def handleWd (args : List String) : Option String :=
  match args with
  | [t, evs] => do
    let T ← t.toNat?
    if T = 0 then none else
    let evs ← evs.toList.mapM parseEv
    some s!"closed={showBool ((WD.init T).run evs).closed}"
  | _ => none

end CJ.Drv.SctpConn
