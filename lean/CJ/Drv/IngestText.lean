import CJ.Drv.Ingest
/-! Driver for the phantom blocklist from its configured text (C07).

`c07b|<entries: t<hex of UTF-8 text> sep ' '>|<ip hex>|<ip hex>…` — `ParseBlocklists` on `phantom_blocklist = entries`, then
`IsBlocklistedPhantom` on every address (4 or 16 bytes).
Answer: `err` when the configuration is refused, otherwise `<network hex>/<ones> …;<0/1 per address>` — the networks as
`net.ParseCIDR` built them (`IPNet.IP`, `Mask.Size()`), before `Contains` reads them. -/
namespace CJ.Drv.IngestText
open CJ.Ingest CJ.Drv CJ.IngestText

def handle (args : List String) : Option String :=
  match args with
  | entries :: ips => do
    let texts ← (fields entries " ").mapM CJ.Drv.Ingest.parseText
    let addrs ← ips.mapM parseHex
    if addrs.any (fun a => a.length != 4 && a.length != 16) then none else
    match texts.mapM (fun t => cidrEntry (trimSpace t.toList)) with
    | none => some "err"
    | some es =>
      match phantomBlocklist texts with
      | none => none   -- cannot happen: the same entries parsed above
      | some bl =>
        let c : Cfg := { enableV4 := true, enableV6 := true, shareOverAPI := false, transports := [], blocklist := bl }
        some (joinWith " " (es.map fun e => s!"{toHex (toBytes e.ip)}/{e.ones}") ++ ";" ++
          String.ofList (addrs.map fun a => if blocklisted c a then '1' else '0'))
  | _ => none

end CJ.Drv.IngestText
