import CJ.Model.WrapStream
import CJ.Drv.Util
/-! Driver for `CJ.WrapStream` (C02):

* `prepend|<remainder hex>|<chunk hex>,…|<E|X|D>|<read sizes>` — `PrependToConn(conn, buffer)` read with the
  given buffer sizes → `<hex>:<-|eof|err>,…` (one entry per read);
* `wrapread|<f<consumed> or ->|<data hex>|<chunks>|<end>|<sizes>` — the buffer a classifier left behind
  (`handedOn`) in front of the socket, read with the given sizes; for `-` (no match) → `kept:<buffer hex>`;
* `obfs4mark|<mark hex>|<startPos>|<maxPos>|<buffer hex>` → `panic | -1 | <pos>`. -/
namespace CJ.Drv.WrapStream
open CJ.Wrap CJ.WrapStream CJ.Drv

def parseChunks (s : String) : Option (List Bytes) := (fields s ",").mapM parseHex

def parseSock (chunks endk : String) : Option Sock := do
  let cs ← parseChunks chunks
  match endk with
  | "E" => some ⟨cs, false, false⟩
  | "X" => some ⟨cs, true, false⟩
  | "D" => some ⟨cs, false, true⟩
  | _ => none

def showErr : Err → String
  | .none => "-" | .eof => "eof" | .other => "err"

def showReads (rs : List ReadRes) : String :=
  joinWith "," (rs.map fun r => toHex r.data ++ ":" ++ showErr r.err)

def parseVerdict (s : String) : Option Verdict :=
  if s == "-" then some .notTransport
  else if s.startsWith "f" then (s.drop 1).toString.toNat?.map (fun n => Verdict.found 0 n)
  else none

def showMark : MarkRes → String
  | .panic => "panic" | .absent => "-1" | .at p => toString p

def handle (model : String) (args : List String) : Option String :=
  match model, args with
  | "prepend", [rem, chunks, endk, sizes] => do
    let rem ← parseHex rem
    let s ← parseSock chunks endk
    let sizes ← parseNatList sizes
    some (showReads (runReads (prepend rem s) sizes).1)
  | "wrapread", [v, data, chunks, endk, sizes] => do
    let v ← parseVerdict v
    let d ← parseHex data
    let s ← parseSock chunks endk
    let sizes ← parseNatList sizes
    match v with
    | .found _ _ => some (showReads (runReads (prepend (handedOn v d) s) sizes).1)
    | _ => some ("kept:" ++ toHex (handedOn v d))
  | "obfs4mark", [mark, sp, mp, buf] => do
    some (showMark (findMarkTail (← parseHex mark) (← parseHex buf) (← sp.toNat?) (← mp.toNat?)))
  | _, _ => none

end CJ.Drv.WrapStream
