import CJ.Model.Phantom
import CJ.Base.HKDF
import CJ.Drv.Util
/-!
Driver for the phantom-selection model.

`phantom|<side>|<seed hex>|<gen>|<ver>|<v6>|<cfg>|<draws>`  →  `ok <addr hex> <randPort>` | `err <kind>` | `panic`

* side: `station` (PhantomIPSelector.Select), `client` (phantoms.SelectPhantom), `compat0`, `compat1`
* cfg: `<gen>=<gencfg>;…`, gencfg = `nil` | `N` (WeightedSubnets == nil) | `E` (empty) | `<group>/<group>…`,
  group = `<weight>,<randPort>,<isNil>,<nets>`, nets = `-` | `<net>+<net>…`,
  net = `x` (does not parse) | `<4|6>.<base>.<ones>.<bits>`
* draws (math/rand, computed by the harness with the real generator): `-` |
  `<seedInt>;<max>:<Intn(max)>,…;<Read(4) hex>;<Read(16) hex>` — each value is the first draw after seeding.

The HKDF streams are computed here (Lean SHA-256).  Nothing is defaulted: an unparsable field, a seed
the model derives differently from the harness, or a draw the table cannot answer gives `bad-op`.
-/
namespace CJ.Drv.Phantom
open CJ.Phantom CJ.Drv

def parseNet (s : String) : Option (Option RawNet) :=
  if s == "x" then some none else
  match s.splitOn "." with
  | [f, b, o, bits] => do
    let v4 ← if f == "4" then some true else if f == "6" then some false else none
    some (some { v4 := v4, base := ← b.toNat?, ones := ← o.toNat?, bits := ← bits.toNat? })
  | _ => none

def parseGroupS (s : String) : Option Group :=
  match s.splitOn "," with
  | [w, rp, nl, nets] => do
    let nets ← if nets == "-" then some [] else (nets.splitOn "+").mapM parseNet
    some { weight := ← w.toNat?, randPort := ← parseBool rp, isNil := ← parseBool nl, nets := nets }
  | _ => none

def parseGenCfg (s : String) : Option (Option GenCfg) :=
  if s == "nil" then some none
  else if s == "N" then some (some ⟨true, []⟩)
  else if s == "E" then some (some ⟨false, []⟩)
  else do some (some ⟨false, ← (s.splitOn "/").mapM parseGroupS⟩)

def parseCfg (s : String) : Option Cfg :=
  if s == "-" then some ⟨[]⟩ else do
  let gens ← (s.splitOn ";").mapM fun g =>
    match g.splitOn "=" with
    | [n, c] => do some (← n.toNat?, ← parseGenCfg c)
    | _ => none
  some ⟨gens⟩

/-- the harness-supplied first draws after seeding with `seedInt` -/
structure Draws where
  seedInt : Int
  intns : List (Nat × Nat)
  read4 : Bytes
  read16 : Bytes

def parseDraws (s : String) : Option (Option Draws) :=
  if s == "-" then some none else
  match s.splitOn ";" with
  | [sd, pairs, r4, r16] => do
    let ps ← (fields pairs ",").mapM fun p =>
      match p.splitOn ":" with
      | [m, v] => do some (← m.toNat?, ← v.toNat?)
      | _ => none
    some (some { seedInt := ← sd.toInt?, intns := ps, read4 := ← parseHex r4, read16 := ← parseHex r16 })
  | _ => none

/-- checked interpretation: `none` as soon as the program asks for something the table cannot answer
(a different seed, a second draw without re-seeding, an unknown bound or length) -/
def runChecked {α : Type} (d : Option Draws) : Prog α → Bool → Option α
  | .done a, _ => some a
  | .seed s k, _ =>
    match d with
    | some d => if s == d.seedInt then runChecked (some d) k true else none
    | none => none
  | .intn n k, fresh =>
    match d with
    | some d => if !fresh then none else
      match d.intns.find? (·.1 == n) with
      | some (_, v) => runChecked (some d) (k v) false
      | none => none
    | none => none
  | .read n k, fresh =>
    match d with
    | some d => if !fresh then none else
      if n == 4 then runChecked (some d) (k d.read4) false
      else if n == 16 then runChecked (some d) (k d.read16) false
      else none
    | none => none

/-- the same table as an `Rng` for `Prog.run`: the state is "freshly seeded with the expected seed" -/
def tableRng (d : Option Draws) : Rng where
  G := Bool
  seed := fun s => match d with | some d => s == d.seedInt | none => false
  intn := fun g n => match d with
    | some d => (if g then ((d.intns.find? (·.1 == n)).map (·.2)).getD 0 else 0, false)
    | none => (0, false)
  read := fun g n => match d with
    | some d => (if g then (if n == 4 then d.read4 else if n == 16 then d.read16 else []) else [], false)
    | none => ([], false)

/-- run a program both ways; the answers must coincide -/
def runBoth {α : Type} [DecidableEq α] (d : Option Draws) (p : Prog α) : Option α :=
  match runChecked d p false with
  | some a => if (p.run (tableRng d) false).1 = a then some a else none
  | none => none

def errName : Err → String
  | .unknownGen => "unknownGen" | .varint => "varint" | .noChoices => "noChoices"
  | .weightOverflow => "weightOverflow" | .emptyGroup => "emptyGroup" | .parse => "parse"
  | .zeroWeight => "zeroWeight" | .entropy => "entropy" | .noAddrs => "noAddrs"
  | .legacyNoAddrs => "legacyNoAddrs" | .v0NoAddrs => "v0NoAddrs" | .v0Bug => "v0Bug"
  | .nilResult => "nilResult" | .offsetTooBig => "offsetTooBig" | .seedFail => "seedFail"
  | .addrRange => "addrRange"

def showAddr : Outcome Addr → String
  | .ok a => s!"ok {toHex a.bytes} {showBool a.randPort}"
  | .err e => "err " ++ errName e
  | .panic _ => "panic"

def showBytes : Outcome Bytes → String
  | .ok b => s!"ok {toHex b} -"
  | .err e => "err " ++ errName e
  | .panic _ => "panic"

/-- `hkdf.New(sha256.New, seed, nil, info)` for the labels the selectors use; the three readers of a
seed share the extracted key, the first blocks are cached per label -/
def hkOf (seed : Bytes) : Hk :=
  let prk := CJ.HKDF.extract ByteArray.empty (CJ.SHA256.ofList seed)
  let sub := CJ.HKDF.streamWith (CJ.HKDF.cacheOf prk labelSubnet.toUTF8) prk labelSubnet.toUTF8
  let adr := CJ.HKDF.streamWith (CJ.HKDF.cacheOf prk labelAddr.toUTF8) prk labelAddr.toUTF8
  { hk := fun sd info =>
      if sd == seed && info == labelSubnet then sub
      else if sd == seed && info == labelAddr then adr
      else CJ.HKDF.reader (CJ.SHA256.ofList sd) ByteArray.empty info.toUTF8
    lim := CJ.HKDF.limit }

def handle (args : List String) : Option String :=
  match args with
  | [side, seed, gen, ver, v6, cfg, draws] => do
    let seed ← parseHex seed
    let gen ← gen.toNat?
    let ver ← ver.toNat?
    let v6 ← parseBool v6
    let cfg ← parseCfg cfg
    let d ← parseDraws draws
    let h := hkOf seed
    match side with
    | "station" => do some (showAddr (← runBoth d (stationSelect h cfg seed gen ver v6)))
    | "client" =>
      match cfg.gens with
      | [(_, some gc)] => some (showAddr (clientSelect h gc seed v6))
      | _ => none
    | "compat0" =>
      match cfg.gens with
      | [(_, some gc)] => do some (showBytes (← runBoth d (compatSelect true gc seed v6)))
      | _ => none
    | "compat1" =>
      match cfg.gens with
      | [(_, some gc)] => do some (showBytes (← runBoth d (compatSelect false gc seed v6)))
      | _ => none
    | _ => none
  | _ => none

/-- `randint|<stream hex>|<lim>|<max>` → `ok <n>` | `err entropy` | `panic`: `crypto/rand.Int` on a
reader that delivers exactly the given bytes (differential test of `randInt` alone, including the
entropy limit and the zero bound) -/
def handleRandInt (args : List String) : Option String :=
  match args with
  | [bytes, lim, max] => do
    let bs ← parseHex bytes
    let arr := bs.toArray
    let s : Stream := fun i => if h : i < arr.size then arr[i] else 0
    match randInt s (← lim.toNat?) (← max.toNat?) with
    | .ok n => some s!"ok {n}"
    | .err e => some ("err " ++ errName e)
    | .panic _ => some "panic"
  | _ => none

/-- `varint|<hex>` → `<value> <n>` (`encoding/binary.Varint`) -/
def handleVarint (args : List String) : Option String :=
  match args with
  | [bytes] => do
    let (v, n) := varint (← parseHex bytes)
    some s!"{v} {n}"
  | _ => none

/-- `offset|<net>|<randPort>|<offset>` → `selectAddrFromSubnetOffset` alone (exhaustive sweeps) -/
def handleOffset (args : List String) : Option String :=
  match args with
  | [net, rp, off] => do
    match ← parseNet net with
    | some r => some (showAddr (selectAddrFromSubnetOffset { r with randPort := ← parseBool rp } (← off.toNat?)))
    | none => none
  | _ => none

end CJ.Drv.Phantom
