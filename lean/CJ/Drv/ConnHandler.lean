import CJ.Model.ConnHandler
import CJ.Drv.Util
/-!
Driver for the connection-handler model (C03, C04).

`conn|<geo>|<count>|<tids>|<events>|<passes>`  →  the action trace, one token per action.

* `geo`     `ok` | `nonip` | `cc` | `asn`
* `count`   `CountRegistrations(phantom)`
* `tids`    the wrapping transports enabled (`,`-separated numbers)
* `events`  what the successive `Read`s on the client connection returned (`;`-separated):
            `d<hex>` (`d-` = zero bytes), `eof`, `rst`, `to`, `err`; an exhausted script = deadline
* `passes`  the verdicts the *real* transports gave, pass by pass (`;`-separated passes, each
            `tid:V,tid:V,…` in the order Go's map iteration visited them; `V` = `T` try-again, `N`
            not-transport, `E` other error, `F<reg>.<consumed>` found)

The observed verdicts instantiate the model's abstract classifiers (a classifier is the function
`(tid, buffer length) ↦ verdict`; two different observations for one pair are answered
`inconsistent`), the observed visiting order instantiates `sched` (always completed to a permutation
of the transports still possible).  The model then decides which transports are asked, in which pass,
when the loop stops and what is done; a query the model makes that the implementation did not make
has no observation and is printed as an `E` query, so it can never agree with the implementation.
-/
namespace CJ.Drv.ConnHandler
open CJ.ConnHandler CJ.Drv

def parseGeo : String → Option Geo
  | "ok" => some .ok | "nonip" => some .nonIP | "cc" => some .ccErr | "asn" => some .asnErr
  | _ => none

def parseEv (s : String) : Option Ev :=
  if s == "eof" then some .eof
  else if s == "rst" then some .reset
  else if s == "to" then some .deadline
  else if s == "err" then some .otherErr
  else if s.startsWith "d" then (parseHex (s.drop 1).toString).map .data
  else none

def parseVerdict (s : String) : Option (Verdict Nat) :=
  if s == "T" then some .tryAgain
  else if s == "N" then some .notT
  else if s == "E" then some .err
  else if s.startsWith "F" then
    match (s.drop 1).toString.splitOn "." with
    | [r, k] => do some (.found (← r.toNat?) (← k.toNat?))
    | _ => none
  else none

def parseQuery (s : String) : Option (Nat × Verdict Nat) :=
  match s.splitOn ":" with
  | [t, v] => do some (← t.toNat?, ← parseVerdict v)
  | _ => none

def parsePass (s : String) : Option (List (Nat × Verdict Nat)) := (fields s ",").mapM parseQuery

/-- buffer lengths after the successive data events (up to the first error) -/
def cumLens : Nat → List Ev → List Nat
  | acc, .data bs :: evs => (acc + bs.length) :: cumLens (acc + bs.length) evs
  | _, _ => []

abbrev Obs := List (Nat × Nat × Verdict Nat)   -- (tid, buffer length, verdict)

def lookup (o : Obs) (t len : Nat) : Option (Verdict Nat) :=
  (o.find? fun e => e.1 == t && e.2.1 == len).map (·.2.2)

def consistent : Obs → Bool
  | [] => true
  | (t, l, v) :: rest => (rest.all fun e => !(e.1 == t && e.2.1 == l) || e.2.2 == v) && consistent rest

def showVerdict : Verdict Nat → String
  | .tryAgain => "T" | .notT => "N" | .err => "E"
  | .found r k => s!"F{r}.{k}"

def fnv64 (bs : Bytes) : UInt64 :=
  bs.foldl (fun h b => (h ^^^ b.toUInt64) * 0x100000001b3) 0xcbf29ce484222325

def hex64 (x : UInt64) : String :=
  String.ofList ((List.range 16).map fun i => hexDigit ((x >>> (UInt64.ofNat (60 - 4 * i))).toNat % 16))

def showTerm : Term → String
  | .eof => "eof" | .reset => "rst" | .deadline => "to" | .otherErr => "err"

def showAct : Act Nat Nat → Option String
  | .setDeadline => some "D"
  | .readData n => some s!"R{n}"
  | .readEnd e => some ("E:" ++ showTerm e)
  | .query t n v => some s!"Q{t}:{n}:{showVerdict v}"
  | .discardUntilErr => none
  | .sleepUntilDeadline => some "S"
  | .clearDeadline => some "Z"
  | .markActive r => some s!"M{r}"
  | .proxy r s => some s!"P{r}:{s.length}:{hex64 (fnv64 s)}"
  | .ret => some "."

def eraseDupsNat (l : List Nat) : List Nat :=
  l.foldl (fun acc x => if acc.contains x then acc else acc ++ [x]) []

def handle (args : List String) : Option String :=
  match args with
  | [geo, count, tids, events, passes] => do
    let geo ← parseGeo geo
    let count ← count.toNat?
    let ts ← parseNatList tids
    let evs ← (fields events ";").mapM parseEv
    let ps ← (fields passes ";").mapM parsePass
    let lens := cumLens 0 evs
    if ps.length > lens.length then none else
    let obs : Obs := ((ps.zip lens).map fun (p, l) => p.map fun (t, v) => (t, l, v)).flatten
    if !consistent obs then some "inconsistent" else
    let cls : Nat → Bytes → Verdict Nat := fun t buf => (lookup obs t buf.length).getD .err
    let order : Nat → List Nat := fun i => ((ps[i]?).getD []).map (·.1)
    let sched : Nat → List Nat → List Nat := fun i ts =>
      let o := order i
      eraseDupsNat (o.filter (ts.contains ·)) ++ ts.filter (!o.contains ·)
    let tr := handler cls sched geo count ts evs
    some (joinWith " " (tr.filterMap showAct))
  | _ => none

end CJ.Drv.ConnHandler
