import CJ.Model.NetAddrBytes
import CJ.Drv.NetAddr
/-! Driver for the byte reading of the address-literal models (`CJ.NetAddrBytes`): the lines of `CJ.Drv.NetAddr`
with every *string* taken and given back as raw bytes (no UTF-8 decoding anywhere).

`netaddrb|s|<hex bytes>`, `netaddrb|con|<hex bytes of a CIDR string>|<hex of 4 or 16 bytes>`,
`netaddrb|jhp|<host bytes>|<port bytes>`, `cadmitb|<blocklist>|<allowlist>|<hex bytes of the covert string>`
(the configured entries stay text: the harness writes them) — answers in the format of the `netaddr|` / `cadmit|` lines. -/
namespace CJ.Drv.NetAddrBytes
open CJ.NetAddr CJ.NetAddrBytes CJ.Drv CJ.Drv.Covert CJ.Drv.NetAddr

/-- a slice handed back, as bytes; `!` if it holds a character that is no byte (cannot happen for slices of a byte reading) -/
def strHexB (s : Str) : String := match toBytes s with | some b => toHex b | none => "!"

def showAddrB : Option Addr → String
  | none => "E"
  | some (.v4 b) => "4," ++ bytesHex b
  | some (.v6 b z) => "6," ++ bytesHex b ++ "," ++ strHexB z

def showSplitB : Option (Str × Str) → String
  | none => "E"
  | some (h, p) => strHexB h ++ "," ++ strHexB p

def showResB : LitResolved → String
  | .noIP => "N"
  | .addr ip z => "A," ++ bytesHex ip ++ "," ++ strHexB z
  | .name => "name"

def handle (args : List String) : Option String :=
  match args with
  | ["s", h] => do
    let b ← parseHex h
    some ("pa=" ++ showAddrB (parseAddrB b) ++ ";pip=" ++ (match parseIPB b with | some x => bytesHex x | none => "E") ++
      ";shp=" ++ showSplitB (splitHostPortB b) ++ ";u16=" ++ (match parseUint16B b with | some v => toString v | none => "E") ++
      ";cidr=" ++ showNet (parseCIDRB b) ++ ";res=" ++ showResB (resolveLiteralB b))
  | ["con", c, h] => do
    let cs ← parseHex c
    let b ← hexBytes h
    if b.length != 4 && b.length != 16 then none else
    match parseCIDRB cs with
    | none => some "E"
    | some n => some (showBool (contains n b))
  | ["jhp", hh, ph] => do
    let host ← parseHex hh
    let port ← parseHex ph
    let j := joinHostPortB host port
    some (strHexB j ++ ";" ++ showSplitB (splitHostPort j))
  | _ => none

def handleAdmit (args : List String) : Option String :=
  match args with
  | [bl, al, prov] => do
    let block ← parseList bl
    let allow ← parseList al
    let provided ← parseHex prov
    match CJ.CovertLit.mkPolicy (Pat := Unit) block allow [] with
    | none => some "badcidr"
    | some pol =>
      match admitLitB (fun _ _ => false) pol provided with
      | none => some "name"
      | some r => some (strHexB r.out.toList ++ "|" ++ showBool r.lookup)
  | _ => none

end CJ.Drv.NetAddrBytes
