import CJ.Model.DtlsListener
import CJ.Drv.Util
/-! Driver for the listener model of C16.

`dtls|<op>;<op>;…` — the harness drives the real listener one *macro* step at a time (each runs until
the goroutine blocks or returns); the driver expands a macro step into the model's atomic steps:

* `A<a>:<id>` — `Accept` call `a` for secret `id`, up to its `select` → `wait` | `fail`
* `H<h>:<rnd>:<cert>` — client hello of connection `h` → `shown:<id>` | `shown:random`
* `V<h>` — certificate verification on both ends → `ok` | `drop`
* `R<h>` — `chFromID` → `ch` | `drop`
* `S<h>` — the send on the channel (buffer 1); a waiting acceptor then receives and returns →
  `sent:conn:<h>` | `sent:lost` (the channel's acceptor has already returned) | `full`
* `SXc<h>` / `SXx<h>` — the send, and the acceptor's context cancelled right behind it: the `select` may take
  either case; the harness names the case the implementation took (`c`: the connection, `x`: the
  cancellation) and the model takes the same one → `sent:conn:<h>` / `sent:cancelled` (or as `S<h>` when no
  acceptor is waiting).  The registrations end up the same, the channel's buffer does not (a second sender
  holding the channel finds it empty / full).
* `T<h>` — the sender's 5 s context expires → `drop` | `-`
* `W<a>` — the acceptor is given time to run → `blocked` | `conn:<h>` | `-`
* `X<a>` — `ctx.Done()` → `cancelled` | `-`

Each answer is followed by the registered secrets: `<answer>/<certs>/<chans>` (ids joined by `.`). -/
namespace CJ.Drv.DtlsListener
open CJ.DtlsListener CJ.Drv

inductive MOp
  | acc (a id : Nat)
  | hello (h rnd cert : Nat)
  | verify (h : Nat)
  | route (h : Nat)
  | send (h : Nat)
  | sendCancel (connWins : Bool) (h : Nat)
  | timeout (h : Nat)
  | wait (a : Nat)
  | cancel (a : Nat)

def parseMOp (s : String) : Option MOp :=
  if s.startsWith "SXc" then (s.drop 3).toString.toNat?.map (.sendCancel true) else
  if s.startsWith "SXx" then (s.drop 3).toString.toNat?.map (.sendCancel false) else
  let body := (s.drop 1).toString
  match (s.take 1).toString, body.splitOn ":" with
  | "A", [a, id] => do some (.acc (← a.toNat?) (← id.toNat?))
  | "H", [h, r, c] => do some (.hello (← h.toNat?) (← r.toNat?) (← c.toNat?))
  | "V", [h] => do some (.verify (← h.toNat?))
  | "R", [h] => do some (.route (← h.toNat?))
  | "S", [h] => do some (.send (← h.toNat?))
  | "T", [h] => do some (.timeout (← h.toNat?))
  | "W", [a] => do some (.wait (← a.toNat?))
  | "X", [a] => do some (.cancel (← a.toNat?))
  | _, _ => none

def idsOf : MOp → List Nat
  | .acc _ id => [id]
  | .hello _ r c => [r, c]
  | _ => []

/-- run an acceptor until it blocks or returns (at most 4 steps are ever needed) -/
def accRun (s : St) (a : Nat) : St :=
  (List.range 4).foldl (fun s _ => step s (.accStep a)) s

def macroStep (s : St) : MOp → St × String
  | .acc a id =>
    if s.apc.has a then (s, "-") else
    let s' := accRun (step s (.accStart a id)) a
    (s', match s'.apc a with
      | some .waiting => "wait"
      | some .failed => "fail"
      | _ => "?")
  | .hello h rnd cert =>
    if s.hs.has h then (s, "-") else
    let s' := step (step s (.hsStart h rnd cert)) (.hsStep h)
    (s', match s'.hs h with
      | some ⟨_, _, .verify (some id)⟩ => s!"shown:{id}"
      | some ⟨_, _, .verify none⟩ => "shown:random"
      | _ => "?")
  | .verify h =>
    match s.hs h with
    | some ⟨_, _, .verify _⟩ =>
      let s' := step s (.hsStep h)
      (s', match s'.hs h with
        | some ⟨_, _, .route⟩ => "ok"
        | _ => "drop")
    | _ => (s, "-")
  | .route h =>
    match s.hs h with
    | some ⟨_, _, .route⟩ =>
      let s' := step s (.hsStep h)
      (s', match s'.hs h with
        | some ⟨_, _, .send _⟩ => "ch"
        | _ => "drop")
    | _ => (s, "-")
  | .send h =>
    match s.hs h with
    | some ⟨_, _, .send _⟩ =>
      let s' := step s (.hsStep h)
      match s'.hs h with
      | some ⟨_, _, .delivered ch⟩ =>
        (match s'.apc ch with
         | some .waiting =>
           let s'' := accRun s' ch
           (s'', match s''.apc ch with
             | some (.done (some c)) => s!"sent:conn:{c}"
             | _ => "?")
         | _ => (s', "sent:lost"))
      | _ => (s', "full")
    | _ => (s, "-")
  | .sendCancel connWins h =>
    match s.hs h with
    | some ⟨_, _, .send _⟩ =>
      let s' := step s (.hsStep h)
      match s'.hs h with
      | some ⟨_, _, .delivered ch⟩ =>
        (match s'.apc ch with
         | some .waiting =>
           -- both cases of the `select` are ready: the branch the implementation took
           let s'' := if connWins then step (accRun s' ch) (.accCancel ch) else accRun (step s' (.accCancel ch)) ch
           (s'', match s''.apc ch with
             | some (.done (some c)) => s!"sent:conn:{c}"
             | some (.done none) => "sent:cancelled"
             | _ => "?")
         | _ => (s', "sent:lost"))
      | _ => (s', "full")
    | _ => (s, "-")
  | .timeout h =>
    match s.hs h with
    | some ⟨_, _, .send _⟩ => (step s (.hsTimeout h), "drop")
    | _ => (s, "-")
  | .wait a =>
    match s.apc a with
    | some .waiting =>
      let s' := accRun s a
      (s', match s'.apc a with
        | some (.done (some c)) => s!"conn:{c}"
        | some .waiting => "blocked"
        | _ => "?")
    | _ => (s, "-")
  | .cancel a =>
    match s.apc a with
    | some .waiting =>
      let s' := accRun (step s (.accCancel a)) a
      (s', match s'.apc a with
        | some (.done none) => "cancelled"
        | _ => "?")
    | _ => (s, "-")

def dedup (l : List Nat) : List Nat := l.foldl (fun acc x => if acc.contains x then acc else acc ++ [x]) []

def handle (args : List String) : Option String :=
  match args with
  | [ops] => do
    let ops ← (fields ops ";").mapM parseMOp
    let ids := (dedup (ops.flatMap idsOf)).toArray.qsort (· < ·) |>.toList
    let dump (s : St) : String :=
      joinWith "." ((ids.filter (fun i => s.certs.has i)).map toString) ++ "/" ++
      joinWith "." ((ids.filter (fun i => s.chans.has i)).map toString)
    let (_, outs) := ops.foldl (fun (acc : St × List String) o =>
      let (s', out) := macroStep acc.1 o
      (s', (out ++ "/" ++ dump s') :: acc.2)) (({} : St), [])
    some (joinWith ";" outs.reverse)
  | _ => none

end CJ.Drv.DtlsListener
