import CJ.Model.Detector
import CJ.Drv.Util
/-! Driver for the station → detector channel model (C10).

`c10|<step>;<step>;…` — the steps are handled in order by one detector whose map initially holds one
foreign key (`sentinel`, expiry 1); the clock starts at 0 and is set by a `<now>@` prefix of a step.
A step is `S` (sweep: `drop_stale_sessions`), `F,<next-header>,<src>,<dst>,<dport>` (lookup by the
packet path: `is_tracked_session(FlowNoSrcPort)`, addresses as `4.<hex>` / `6.<hex>`), or a message:
* `R,<phantom hex>,<registrant hex>,<port>,<proto>,<op>,<timeout>` — `mkS2D` of that registration,
* `C` — the station's clear message (`mkClear`),
* `M,<op>,<proto>,<client>,<phantom>,<dport>,<sport>,<timeout>` — a raw message; `-` = field absent;
  a text field is `E` (empty), `X` (other text), `4.<hex>` / `6.<hex>` (literal, as classified by the
  detector's own parser).
Answer per step: `<conversion | sweep:<dropped> | flow:<tracked>>/<map size>/<sentinel present>/<expiry stored
under the session's tag>/<index of the first step of the case with the same tag>`. -/
namespace CJ.Drv.Detector
open CJ.Detector CJ.Drv

def parseBytes (s : String) : Option Bytes := parseHex s

def parseCls (s : String) : Option Txt :=
  if s == "E" then some .empty
  else if s == "X" then some .other
  else match s.splitOn "." with
    | ["4", h] => do
      let b ← parseHex h
      if b.length = 4 then some (.lit (.v4 b)) else none
    | ["6", h] => do
      let b ← parseHex h
      if b.length = 16 then some (.lit (.v6 b)) else none
    | _ => none

def optNat (s : String) : Option (Option Nat) :=
  if s == "-" then some none else s.toNat?.map some

def optCls (s : String) : Option (Option Txt) :=
  if s == "-" then some none else (parseCls s).map some

def parseMsg (s : String) : Option S2D :=
  match s.splitOn "," with
  | ["R", ph, rg, port, proto, op, t] => do
    let r : Reg := { phantom := ← parseBytes ph, registrant := ← parseBytes rg, port := ← port.toNat?, proto := ← proto.toNat? }
    some (mkS2D r (← t.toNat?) (← op.toNat?))
  | ["C"] => some mkClear
  | ["M", op, proto, cl, ph, dp, sp, t] => do
    some { operation := ← optNat op, proto := ← optNat proto, clientIp := ← optCls cl, phantomIp := ← optCls ph,
           dstPort := ← optNat dp, srcPort := ← optNat sp, timeoutNs := ← optNat t }
  | _ => none

def showIp : IpAddr → String
  | .v4 o => "4." ++ toHex o
  | .v6 o => "6." ++ toHex o

def showErr : Err → String
  | .invalidPhantom => "InvalidPhantom"
  | .invalidClient => "InvalidClient"
  | .mixedV4V6 => "MixedV4V6Error"
  | .unrecognizedProto => "UnrecognizedProto"

def showConv : Except Err Session → String
  | .ok s => s!"ok:{showIp s.client}:{showIp s.phantom}:{s.dstPort}:{s.srcPort}:{s.proto}:{s.timeout}"
  | .error e => "err:" ++ showErr e

def sentinel : Key := .ext "sentinel"

/-- one step of a case: a station message, a sweep of stale sessions, or a lookup by the packet path -/
inductive Step
  | msg (m : S2D)
  | sweep
  | flow (f : Flow)

def parseAddr (s : String) : Option IpAddr :=
  match parseCls s with
  | some (.lit a) => some a
  | _ => none

def parseStepBody (s : String) : Option Step :=
  match s.splitOn "," with
  | ["S"] => some .sweep
  | ["F", proto, src, dst, dport] => do
    some (.flow { proto := ← proto.toNat?, src := ← parseAddr src, dst := ← parseAddr dst, dstPort := ← dport.toNat? })
  | _ => (parseMsg s).map .msg

/-- `<now>@<step>` sets the detector's clock before the step; without the prefix the clock stays -/
def parseStep (s : String) : Option (Option Nat × Step) :=
  match s.splitOn "@" with
  | [body] => (parseStepBody body).map (fun b => (none, b))
  | [t, body] => do
    let now ← t.toNat?
    let b ← parseStepBody body
    some (some now, b)
  | _ => none

structure DrvState where
  now : Nat := 0
  map : Map := [(sentinel, 1)]
  tags : List (Option Tag) := []   -- tag of every step so far (in order), `none` where a step has none
  outs : List String := []         -- answers, newest first

/-- index of the first step of the case that carries the same tag (the step's own index if it is the
first): equal tags ⇔ equal indices, which the harness compares with the detector's tag *strings* -/
def tagClass (earlier : List (Option Tag)) (t : Option Tag) : String :=
  match t with
  | none => "-"
  | some tg =>
    match earlier.findIdx? (· == some tg) with
    | some i => toString i
    | none => toString earlier.length

def step (d : DrvState) (x : Option Nat × Step) : DrvState :=
  let now := x.1.getD d.now
  let sent (st : Map) := showBool (st.get? sentinel).isSome
  match x.2 with
  | .msg m =>
    let st' := CJ.Detector.handle now d.map m
    let conv := convert m
    let (val, tg) := match conv with
      | .ok s => (match st'.get? (.tag (tagOf s)) with
          | some v => toString v
          | none => "-", some (tagOf s))
      | .error _ => ("-", none)
    { now := now, map := st', tags := d.tags ++ [tg],
      outs := s!"{showConv conv}/{st'.length}/{sent st'}/{val}/{tagClass d.tags tg}" :: d.outs }
  | .sweep =>
    let st' := dropStale now d.map
    { now := now, map := st', tags := d.tags ++ [none],
      outs := s!"sweep:{d.map.length - st'.length}/{st'.length}/{sent st'}/-/-" :: d.outs }
  | .flow f =>
    let tg := some (flowTag f)
    { now := now, map := d.map, tags := d.tags ++ [tg],
      outs := s!"flow:{showBool (isTracked d.map f)}/{d.map.length}/{sent d.map}/-/{tagClass d.tags tg}" :: d.outs }

def handle (args : List String) : Option String :=
  match args with
  | [msgs] => do
    let ss ← (fields msgs ";").mapM parseStep
    let d := ss.foldl step {}
    some (joinWith ";" d.outs.reverse)
  | _ => none

end CJ.Drv.Detector
