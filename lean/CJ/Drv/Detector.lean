import CJ.Model.Detector
import CJ.Drv.Util
/-! Driver for the station → detector channel model (C10).

`c10|<msg>;<msg>;…` — the messages are handled in order by one detector whose map initially holds one
foreign key (`sentinel`, expiry 1); the clock is fixed at 0.  A message is
* `R,<phantom hex>,<registrant hex>,<port>,<proto>,<op>,<timeout>` — `mkS2D` of that registration,
* `C` — the station's clear message (`mkClear`),
* `M,<op>,<proto>,<client>,<phantom>,<dport>,<sport>,<timeout>` — a raw message; `-` = field absent;
  a text field is `E` (empty), `X` (other text), `4.<hex>` / `6.<hex>` (literal, as classified by the
  detector's own parser).
Answer per message: `<conversion>/<map size>/<sentinel present>/<expiry stored under the session's tag>`. -/
namespace CJ.Drv.Detector
open CJ.Detector CJ.Drv

def parseBytes (s : String) : Option Bytes := parseHex s

def parseCls (s : String) : Option Txt :=
  if s == "E" then some .empty
  else if s == "X" then some .other
  else match s.splitOn "." with
    | ["4", h] => do
      let b ← parseHex h
      if b.length = 4 then some (.lit (.v4 b)) else none
    | ["6", h] => do
      let b ← parseHex h
      if b.length = 16 then some (.lit (.v6 b)) else none
    | _ => none

def optNat (s : String) : Option (Option Nat) :=
  if s == "-" then some none else s.toNat?.map some

def optCls (s : String) : Option (Option Txt) :=
  if s == "-" then some none else (parseCls s).map some

def parseMsg (s : String) : Option S2D :=
  match s.splitOn "," with
  | ["R", ph, rg, port, proto, op, t] => do
    let r : Reg := { phantom := ← parseBytes ph, registrant := ← parseBytes rg, port := ← port.toNat?, proto := ← proto.toNat? }
    some (mkS2D r (← t.toNat?) (← op.toNat?))
  | ["C"] => some mkClear
  | ["M", op, proto, cl, ph, dp, sp, t] => do
    some { operation := ← optNat op, proto := ← optNat proto, clientIp := ← optCls cl, phantomIp := ← optCls ph,
           dstPort := ← optNat dp, srcPort := ← optNat sp, timeoutNs := ← optNat t }
  | _ => none

def showIp : IpAddr → String
  | .v4 o => "4." ++ toHex o
  | .v6 o => "6." ++ toHex o

def showErr : Err → String
  | .invalidPhantom => "InvalidPhantom"
  | .invalidClient => "InvalidClient"
  | .mixedV4V6 => "MixedV4V6Error"
  | .unrecognizedProto => "UnrecognizedProto"

def showConv : Except Err Session → String
  | .ok s => s!"ok:{showIp s.client}:{showIp s.phantom}:{s.dstPort}:{s.srcPort}:{s.proto}:{s.timeout}"
  | .error e => "err:" ++ showErr e

def sentinel : Key := .ext "sentinel"

def answer (st : Map) (m : S2D) : Map × String :=
  let st' := handle 0 st m
  let conv := convert m
  let val := match conv with
    | .ok s => match st'.get? (.tag (tagOf s)) with
      | some v => toString v
      | none => "-"
    | .error _ => "-"
  (st', s!"{showConv conv}/{st'.length}/{showBool (st'.get? sentinel).isSome}/{val}")

def handle (args : List String) : Option String :=
  match args with
  | [msgs] => do
    let ms ← (fields msgs ";").mapM parseMsg
    let (_, outs) := ms.foldl (fun (acc : Map × List String) m =>
      let (st', o) := answer acc.1 m
      (st', o :: acc.2)) ([(sentinel, 1)], [])
    some (joinWith ";" outs.reverse)
  | _ => none

end CJ.Drv.Detector
