import CJ.Model.DnsReq
import CJ.Model.RemoteAddr
import CJ.Drv.BdReq
/-! Driver for the DNS registrar's handler and for `getRemoteAddr` (C13).

`dnsreq|decodes|srcBd|payload|gen|v4|v6|sel4|sel6|transport|params|secretLen|send|ccLoad|ccLater|snap|sel1|sel2`
(fields as in `bdreq|…`; `ccLoad` / `ccLater`: `latestCCGen` when the handler starts / after the processor returned)

Answer: `resp=<0/1> success=<0/1> outdated=<0/1> bd=<0/1> v4=<ver or -> v6=<ver or -> cc=<gen or -> called=<-|b|u> asked=… sent=<0/1>`

`raddr|<hex of r.RemoteAddr>|<hex of each X-Forwarded-For line, comma separated; - for none>` -> the 16 bytes in hex or `nil` -/
namespace CJ.Drv.DnsReq
open CJ.BdReq CJ.DnsReq CJ.Drv CJ.Drv.BdReq

def showDAns (a : DAns) : String :=
  let d : DResp := match a.out with | some d => d | none => ⟨false, false, none⟩
  let r : Resp := match d.bd with | some r => r | none => {}
  let called := if !a.called then "-" else if a.calledBd then "b" else "u"
  s!"resp={showBool a.out.isSome} success={showBool d.success} outdated={showBool d.outdated} bd={showBool d.bd.isSome} v4={showOpt r.v4} v6={showOpt r.v6} cc={showOpt r.cc} called={called} asked={joinWith "," (a.asked.map showAsk)} sent={showBool a.sent}"

def handle : List String → Option String
  | [dec, src, payload, gen, v4, v6, sel4, sel6, tr, params, slen, send, cc0, cc1, s0, s1, s2] => do
    let srcBd ← parseBool src
    let r : Req := {
      bidi := srcBd, addr := true, post := true, clen := 0, decodes := true,
      payload := ← parseBool payload, gen := ← gen.toNat?,
      v4 := ← parseBool v4, v6 := ← parseBool v6, sel4 := ← parseSel sel4, sel6 := ← parseSel sel6,
      transport := ← parseBool tr, params := ← parseBool params, secretLen := ← slen.toNat?,
      send := ← parseBool send }
    let tl : Timeline := ⟨← parseSnap s0, ← parseSnap s1, ← parseSnap s2⟩
    some (showDAns (dns (← cc0.toNat?) (← cc1.toNat?) tl ⟨← parseBool dec, srcBd, r⟩))
  | _ => none

def hexStr (s : String) : Option (List Char) := do
  let bs ← parseHex s
  if bs.all (· < 128) then some (bs.map fun b => Char.ofNat b.toNat) else none

def hexDigitOf (n : Nat) : Char := if n < 10 then Char.ofNat (48 + n) else Char.ofNat (87 + n)
def showBytes (l : List Nat) : String := String.ofList (l.flatMap fun b => [hexDigitOf (b / 16), hexDigitOf (b % 16)])

def handleAddr : List String → Option String
  | [remote, vals] => do
    let remote ← hexStr remote
    let vs ← if vals == "-" then some [] else (vals.splitOn ",").mapM hexStr
    match CJ.RemoteAddr.getRemoteAddr remote vs with
    | some ip => some (showBytes ip)
    | none => some "nil"
  | _ => none

end CJ.Drv.DnsReq
