import CJ.Props.C10Transport
import CJ.Drv.Loop
/-!
Driver for the `c10t|` lines: what the station's message carries for a transport.

`c10t|T,<pb.TransportType wire value>` → `<IPProto wire value of GetProto()>,<IP next-header the detector keys on>`
(`none` for a transport the model does not know);
`c10t|P,<wire value>,<port of a registration the real ingest built>` → `ok` when the port is one the
per-transport model can produce (`CJ.Port.PortOrigin`: 443, the transport's default, the transport's
range, or 0), `outside` otherwise.
-/
namespace CJ.Drv.C10Transport
open CJ.Port CJ.Props.C10

def transportOfWire : Nat → Option Transport
  | 1 => some .min
  | 2 => some .obfs4
  | 3 => some .dtls
  | 4 => some .prefix
  | _ => none

def inRange (r : Nat × Nat) (q : Nat) : Bool := decide (r.1 ≤ q) && decide (q < r.2)

/-- decidable rendering of `PortOrigin` (without the entropy witness) -/
def portAllowed (k : Consts) (t : Transport) (q : Nat) : Bool :=
  q == 443 || q == 0 ||
  match t with
  | .min => inRange k.minRange q
  | .obfs4 => inRange k.obfs4Range q
  | .prefix => inRange k.prefixRange q || k.stationPrefixes.any (fun p => p.2 == q)
  | .dtls => inRange k.dtlsRange q || q == k.dtlsDefault
  | .unknown => false

def handle (args : List String) : Option String :=
  match args with
  | [body] =>
    match body.splitOn "," with
    | ["T", w] => do
      let w ← w.toNat?
      match transportOfWire w with
      | none => some "none"
      | some t =>
        if transportWire t != some w then some "wire-mismatch" else
        match transportProto t with
        | none => some "none"
        | some pr => some s!"{pr},{nextHeader pr}"
    | ["P", w, q] => do
      let w ← w.toNat?
      let q ← q.toNat?
      match transportOfWire w with
      | none => some "none"
      | some t => some (if portAllowed CJ.Derive.genConsts t q && decide (q < 65536) then "ok" else "outside")
    | _ => none
  | _ => none

end CJ.Drv.C10Transport
