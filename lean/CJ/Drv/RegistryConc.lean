import CJ.Model.RegistryConc
import CJ.Drv.Registry
/-! Driver for the concurrent registry model.
`conc|<unusedT>|<activeT>|<enabled>|<pre-ops>|<threads>|<schedule>` →
`<events>|D:…|T:…|bad=<0/1>|done=<0/1>` -/
namespace CJ.Drv.RegistryConc
open CJ.Registry CJ.RegistryConc CJ.Drv

def parseKeys (s : String) : Option (List Key) :=
  (fields s "+").mapM fun x =>
    match x.splitOn ":" with
    | [p, i] => some (p, i)
    | _ => none

def parseTh (s : String) : Option Th :=
  match s.splitOn "," with
  | ["i", ph, id, tr, now, cov, probe, live] => do
    some (.ingest (ph, id) (← tr.toNat?) (← now.toNat?) (← parseBool cov) (← parseBool probe) (← parseBool live) .start)
  | ["s", now, order] => do some (.sweeper (← now.toNat?) (← parseKeys order) .start)
  | ["h", ph, id, tr] => do some (.handler (ph, id) (← tr.toNat?) .start)
  | ["c"] => some (.reload false)
  | _ => none

def showEv : Ev → String
  | .annNew k => s!"new {k.1},{k.2}"
  | .annUpd k => s!"upd {k.1},{k.2}"
  | .removed k v => s!"rm {k.1},{k.2} {showBool v}"
  | .looked k f => s!"look {k.1},{k.2} {showBool f}"
  | .badOrder => "badorder"

def handle (args : List String) : Option String :=
  match args with
  | [u, a, en, pre, ths, sched] => do
    let c : Cfg := { unusedT := ← u.toNat?, activeT := ← a.toNat?, enabled := ← parseNatList en }
    let pre ← (fields pre ";").mapM Registry.parseOp
    let ths ← (fields ths ";").mapM parseTh
    let sched ← parseNatList sched
    let s0 := run c pre
    let w := ({ st := s0, ths := ths } : World).run c sched
    some (joinWith ";" (w.evs.map showEv) ++ "|" ++ Registry.dump w.st ++ "|bad=" ++ showBool w.bad
      ++ "|done=" ++ showBool (w.ths.all Th.done))
  | _ => none

end CJ.Drv.RegistryConc
