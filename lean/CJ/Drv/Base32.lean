import CJ.Model.Base32
import CJ.Drv.Codec
/-! Driver for the base32 model (C15).

`b32|enc|<packet hex>` → the text; `b32|dec|<text hex>` → `ok <bytes hex>` / `err`;
`b32|len|<n>` → `EncodedLen DecodedLen`; `b32|qname|<packet hex>|<domain>` (`DNSPacketConn.queryName`:
base32, lower case, 63-byte labels, domain, `NewName`) → `ok <name>` / `err …`;
`b32|respfor|hd|q|an|ns|ar|dom|maxudp` — `responseFor` with the modelled decoder in place of the table of
`codec|respfor`, same answer format. -/
namespace CJ.Drv.Base32
open CJ.Codec CJ.Drv CJ.Drv.Codec

def handle : List String → Option String
  | ["enc", p] => do some (toHex (CJ.Base32.encode (← parseHex p)))
  | ["dec", t] => do
    some (match CJ.Base32.decode (← parseHex t) with
      | some b => "ok " ++ toHex b
      | none => "err")
  | ["len", n] => do
    let n ← n.toNat?
    some s!"{CJ.Base32.encodedLen n} {CJ.Base32.decodedLen n}"
  | ["qname", p, dom] => do
    some (showOutcome showName (sendName (CJ.Base32.encode (← parseHex p)) (← parseName dom)))
  | ["respfor", hd, q, an, ns, ar, dom, maxudp] => do
    some (match responseFor (← parseMessage hd q an ns ar) (← parseName dom) (← maxudp.toNat?) CJ.Base32.decode with
      | none => "nil"
      | some (resp, payload) =>
        "resp " ++ showMessage resp ++ " " ++ (match payload with | none => "none" | some b => toHex b))
  | _ => none

end CJ.Drv.Base32
