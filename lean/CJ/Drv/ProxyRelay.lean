import CJ.Model.ProxyRelay
import CJ.Drv.HalfPipe
/-! `proxy|<dialErr>|<flag 0/1>.<hex of the client's peer address text>|<up script, 5 fields>|<down script, 5 fields>`
answer: the fields of `CJ.Drv.HalfPipe.showProxy`, then `|cs:<length>.<adler32>.<hex of the first 96 bytes>` of the
byte stream the covert was sent.  The older form (header field `-` / `1` / `0`) is still answered by
`CJ.Drv.HalfPipe.handleProxy`. -/
namespace CJ.Drv.ProxyRelay
open CJ.ProxyRelay CJ.Drv CJ.Drv.HalfPipe

def parseHdr (s : String) : Option (Bool × List Char) :=
  match s.splitOn "." with
  | [f, h] => do
    let flag ← parseBool f
    let bs ← parseHex h
    if bs.any (fun b => b.toNat ≥ 128) then none else
    some (flag, bs.map (fun b => Char.ofNat b.toNat))
  | _ => none

def handle (args : List String) : Option String :=
  match args with
  | [de, hd, urs, uws, uds, usc, udc, drs, dws, dds, dsc, ddc] =>
    if hd == "-" || hd == "1" || hd == "0" then handleProxy args else do
    let (flag, addr) ← parseHdr hd
    let a : In := { dialErr := ← parseErr "dial" de, flag := flag, addr := addr,
                    up := ← parseScript urs uws uds usc udc, down := ← parseScript drs dws dds dsc ddc }
    let o := run a
    some (showProxy o.p ++ s!"|cs:{o.covertGot.length}.{adler o.covertGot}." ++ toHex (o.covertGot.take 96))
  | _ => none

end CJ.Drv.ProxyRelay
