import CJ.Model.ByteCounters
import CJ.Drv.Util
/-! `bytectr|<mode>|<events>`   events = `,`-separated: `<sess>u<n>` / `<sess>d<n>` a chunk of a session · `p` / `z` an epoch
boundary (`PrintStats(false)` / `Reset`) on the process-wide `Stats`.
mode `e`: answer `ep:<up>/<down>;…|cur:<up>/<down>|total:<up>/<down>` (what every boundary discarded, the counters now, the sum). -/
namespace CJ.Drv.ByteCounters
open CJ.ByteCounters CJ.Drv

def parseEv (s : String) : Option Ev :=
  if s == "p" || s == "z" then some .reset else
  match s.splitOn "u" with
  | [a, b] => do some (.chunk (← a.toNat?) true (← b.toNat?))
  | _ => match s.splitOn "d" with
    | [a, b] => do some (.chunk (← a.toNat?) false (← b.toNat?))
    | _ => none

def showCtr (c : Ctr) : String := s!"{c.up}/{c.down}"

def handle (args : List String) : Option String :=
  match args with
  | [mode, evs] => do
    let es ← (fields evs ",").mapM parseEv
    let st := run es
    let tot := s!"total:{st.total true}/{st.total false}"
    if mode == "e" then
      some ("ep:" ++ joinWith ";" (st.closed.map showCtr) ++ "|cur:" ++ showCtr st.cur ++ "|" ++ tot)
    else none
  | _ => none

end CJ.Drv.ByteCounters
