import CJ.Model.Cidr
import CJ.Drv.Util
/-!
Driver for the subnet-string parser (C01).

`cidr|<hex of the string's bytes>` → `x` (the parser refuses it) | `<4|6>.<base>.<ones>.<bits>` — the
notation in which the `derive|…` lines carry a parsed subnet, so the answer is compared with exactly
what the harness feeds to the derivation model for the same string.
`cidrgroup|<randomize 0/1>|<hex>,<hex>,…` (`none`: no entries) → `parseSubnets` on the group:
`err empty` | `err parse` | `<net>:<randomize>;…`
-/
namespace CJ.Drv.Cidr
open CJ.Phantom CJ.Cidr CJ.Drv

def showNet (r : RawNet) : String :=
  s!"{if r.v4 then "4" else "6"}.{r.base}.{r.ones}.{r.bits}"

def handle : List String → Option String
  | [hex] => do
    let bs ← parseHex hex
    match parseCIDRBytes bs with
    | some r => some (showNet r)
    | none => some "x"
  | _ => none

def handleGroup : List String → Option String
  | [rp, strs] => do
    let rp ← parseBool rp
    let l ← (if strs == "none" then some [] else (strs.splitOn ",").mapM parseHex)
    match parseSubnets rp l with
    | .ok nets => some (joinWith ";" (nets.map fun n => s!"{showNet n.toRawNet}:{showBool n.randPort}"))
    | .err .emptyGroup => some "err empty"
    | .err .parse => some "err parse"
    | _ => none
  | _ => none

end CJ.Drv.Cidr
