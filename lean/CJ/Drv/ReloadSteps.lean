import CJ.Model.ReloadSteps
import CJ.Gen.C19Reload
import CJ.Drv.Util
/-! Driver for the extracted `OnReload` program.
`onreload|<sel o/e>|<geo o/m/e>|<field>,<field>,…`  — the outcome of the two loaders and the names of the `RegConfig`
fields whose value differs between the running and the new configuration (`-` = none)
→ `sel=<old/new/nil> geo=<old/new/nil> cfg=<field>:<o/n/x>,… held=<number of mutexes still held>` or `stuck`
(`n` = holds `conf`'s field of the same name, `o` = untouched, `x` = anything else) -/
namespace CJ.Drv.ReloadSteps
open CJ.ReloadSteps CJ.Gen.C19Reload CJ.Drv

def parseOut (s : String) : Option LoadOut :=
  if s == "o" then some .ok else if s == "m" then some .missing else if s == "e" then some .err else none

def showTag : Tag → String
  | .old => "old"
  | .fresh _ => "new"
  | .nil => "nil"
  | _ => "other"

def fieldIdx (s : String) : Option Nat :=
  let i := names.idxOf s
  if i < names.length then some i else none

def handle (args : List String) : Option String :=
  match args with
  | [sl, g, fs] => do
    let e : Env := { sel := ← parseOut sl, geo := ← parseOut g }
    let flds := if fs == "-" then [] else fs.splitOn ","
    let fin := run e steps
    if fin.bad then some "stuck" else
    let cfg := flds.map fun f =>
      -- a field the program never mentions is untouched
      match fieldIdx f with
      | none => f ++ ":o"
      | some i =>
        match fin.tagOf (.regConfig i) with
        | .old => f ++ ":o"
        | .conf j => if i == j then f ++ ":n" else f ++ ":x"
        | _ => f ++ ":x"
    some s!"sel={showTag (fin.tagOf (.manager selectorField))} geo={showTag (fin.tagOf (.manager geoipField))} cfg={joinWith "," cfg} held={fin.held.length}"
  | _ => none

end CJ.Drv.ReloadSteps
