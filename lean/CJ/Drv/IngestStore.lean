import CJ.Model.IngestStore
import CJ.Drv.Ingest
/-! Driver for the ingest model with stored objects (C07, sequences of messages of one or several sessions).

`c07s|<cfg>|<wireC>|<wireC>|…` — the messages are ingested in order into one empty registry.
* cfg as for `c07`, optionally followed by a sixth field `<covert blocklist>;<covert allowlist>` (each a list of
  `t<hex of text>` sep ' '): the configured strings of `covert_blocklist_subnets` / `covert_allowlist_subnets`.  When it is
  there the model COMPUTES the covert verdict of every message whose covert string it can decide without a resolver
  (`CJ.IngestText.covertOfLit`: address literals and strings refused before the lookup) and ignores the verdict on the
  line for those; for host names the verdict on the line stays in force.
* wireC: `G` (undecodable) or `<wire as for c07>,<covert>,<resolved>`: the covert address of the message and the
  covert policy's answer for it, each as `x<hex of the text>`; resolved = `-` when the policy refused.  The
  model never interprets the text.  The covert verdict among the oracles of the wire must be the verdict on this
  covert address (`covertOk = resolved present`), otherwise the line is answered `bad-op`.
Answer per message: `<answer as for c07>;<objects>` where objects lists every stored registration object (tracked,
valid or not), sorted: `<phantom key>/<identifier>=<covert>:<source>:<prescanned>:<registrant hex>:<port>:<proto>:<transport>:<v4support>`. -/
namespace CJ.Drv.IngestStore
open CJ.Ingest CJ.Drv
open CJ.Detector (Bytes)

def parseText (s : String) : Option String :=
  if s.startsWith "x" then some s else none

def parseResolved (s : String) : Option (Option String) :=
  if s == "-" then some none else (parseText s).map some

def parseWireC (s : String) : Option WireC :=
  let fs := s.splitOn ","
  if fs == ["G"] then some { w := .garbage, cv := { raw := "x", resolved := none } }
  else
    let n := fs.length
    if n < 3 then none else do
      let raw ← parseText (← fs[n - 2]?)
      let res ← parseResolved (← fs[n - 1]?)
      let w ← CJ.Drv.Ingest.parseWire (joinWith "," (fs.take (n - 2)))
      match w with
      | .garbage => none
      | .msg _ o => if o.covertOk == res.isSome then some { w := w, cv := { raw := raw, resolved := res } } else none

/-- `x<hex of the UTF-8 text>` ↦ the text -/
def decodeX (s : String) : Option String :=
  match s.toList with
  | 'x' :: h => do
    let b ← parseHex (String.ofList h)
    String.fromUTF8? (ByteArray.mk b.toArray)
  | _ => none

def encodeX (s : String) : String := "x" ++ toHex s.toUTF8.toList

def parsePolicy (s : String) : Option (CJ.Covert.Policy CJ.NetAddr.IPNet Unit) :=
  match s.splitOn ";" with
  | [b, a] => do
    CJ.IngestText.covertPolicy (← (fields b " ").mapM CJ.Drv.Ingest.parseText) (← (fields a " ").mapM CJ.Drv.Ingest.parseText)
  | _ => none

/-- the covert verdict of the message as the model computes it (literal hosts); otherwise the one on the line -/
def computeCovert (pol : CJ.Covert.Policy CJ.NetAddr.IPNet Unit) (w : WireC) : Option WireC :=
  match w.w with
  | .garbage => some w
  | .msg m o => do
    let raw ← decodeX w.cv.raw
    match CJ.IngestText.litWire pol m o raw with
    | some lw =>
      match lw.w with
      | .msg m' o' => some { w := .msg m' o', cv := { raw := w.cv.raw, resolved := lw.cv.resolved.map encodeX } }
      | .garbage => none
    | none => some w

def showObj (k : CJ.Registry.Key) (obj : Obj) : String :=
  s!"{k.1}/{k.2}={obj.covert}:{obj.reg.source}:{showBool obj.reg.prescanned}:{toHex obj.reg.registrant}:{obj.reg.port}:{obj.reg.proto}:{obj.reg.transport}:{showBool obj.reg.v4Support}"

/-- the keys of the registrations the message can store -/
def keysOf (c : Cfg) : Wire → List CJ.Registry.Key
  | .garbage => []
  | .msg m o =>
    [buildFam c m o .v4, buildFam c m o .v6].filterMap (fun b => match b with
      | .ok r => some (keyOf r)
      | .error _ => none)

def handle (args : List String) : Option String :=
  match args with
  | cfg :: wires => do
    let cf := cfg.splitOn ","
    let c ← CJ.Drv.Ingest.parseCfgFields (cf.take 5)
    let ws0 ← wires.mapM parseWireC
    let ws ← (match cf.drop 5 with
      | [] => some ws0
      | [p] => do
        let pol ← parsePolicy p
        ws0.mapM (computeCovert pol)
      | _ => none)
    let (_, _, outs) := ws.foldl (fun (acc : StC × List CJ.Registry.Key × List String) w =>
      let (x, keys, outs) := acc
      let (_, base) := CJ.Drv.Ingest.answer c x.reg w.w
      let x' := (ingestWireC c x w).1
      let keys' := (keys ++ keysOf c w.w).eraseDups
      let objs := keys'.filterMap (fun k => (x'.objs k).map (showObj k))
      (x', keys', s!"{base};{joinWith "," (sortStrings objs)}" :: outs)) (StC.init, [], [])
    some (joinWith "|" outs.reverse)
  | _ => none

end CJ.Drv.IngestStore
