import CJ.Model.IngestStore
import CJ.Drv.Ingest
/-! Driver for the ingest model with stored objects (C07, sequences of messages of one or several sessions).

`c07s|<cfg>|<wireC>|<wireC>|…` — the messages are ingested in order into one empty registry.
* cfg as for `c07`.
* wireC: `G` (undecodable) or `<wire as for c07>,<covert>,<resolved>`: the covert address of the message and the
  covert policy's answer for it, each as `x<hex of the text>`; resolved = `-` when the policy refused.  The
  model never interprets the text.  The covert verdict among the oracles of the wire must be the verdict on this
  covert address (`covertOk = resolved present`), otherwise the line is answered `bad-op`.
Answer per message: `<answer as for c07>;<objects>` where objects lists every stored registration object (tracked,
valid or not), sorted: `<phantom key>/<identifier>=<covert>:<source>:<prescanned>:<registrant hex>:<port>:<proto>:<transport>:<v4support>`. -/
namespace CJ.Drv.IngestStore
open CJ.Ingest CJ.Drv
open CJ.Detector (Bytes)

def parseText (s : String) : Option String :=
  if s.startsWith "x" then some s else none

def parseResolved (s : String) : Option (Option String) :=
  if s == "-" then some none else (parseText s).map some

def parseWireC (s : String) : Option WireC :=
  let fs := s.splitOn ","
  if fs == ["G"] then some { w := .garbage, cv := { raw := "x", resolved := none } }
  else
    let n := fs.length
    if n < 3 then none else do
      let raw ← parseText (← fs[n - 2]?)
      let res ← parseResolved (← fs[n - 1]?)
      let w ← CJ.Drv.Ingest.parseWire (joinWith "," (fs.take (n - 2)))
      match w with
      | .garbage => none
      | .msg _ o => if o.covertOk == res.isSome then some { w := w, cv := { raw := raw, resolved := res } } else none

def showObj (k : CJ.Registry.Key) (obj : Obj) : String :=
  s!"{k.1}/{k.2}={obj.covert}:{obj.reg.source}:{showBool obj.reg.prescanned}:{toHex obj.reg.registrant}:{obj.reg.port}:{obj.reg.proto}:{obj.reg.transport}:{showBool obj.reg.v4Support}"

/-- the keys of the registrations the message can store -/
def keysOf (c : Cfg) : Wire → List CJ.Registry.Key
  | .garbage => []
  | .msg m o =>
    [buildFam c m o .v4, buildFam c m o .v6].filterMap (fun b => match b with
      | .ok r => some (keyOf r)
      | .error _ => none)

def handle (args : List String) : Option String :=
  match args with
  | cfg :: wires => do
    let c ← CJ.Drv.Ingest.parseCfg cfg
    let ws ← wires.mapM parseWireC
    let (_, _, outs) := ws.foldl (fun (acc : StC × List CJ.Registry.Key × List String) w =>
      let (x, keys, outs) := acc
      let (_, base) := CJ.Drv.Ingest.answer c x.reg w.w
      let x' := (ingestWireC c x w).1
      let keys' := (keys ++ keysOf c w.w).eraseDups
      let objs := keys'.filterMap (fun k => (x'.objs k).map (showObj k))
      (x', keys', s!"{base};{joinWith "," (sortStrings objs)}" :: outs)) (StC.init, [], [])
    some (joinWith "|" outs.reverse)
  | _ => none

end CJ.Drv.IngestStore
