import CJ.Model.RelayClock
import CJ.Drv.Util
/-! Driver for the virtual-clock model of the relay's deadlines.

`relayclock|<proxyInitTimeout ms>|<proxyStallTimeout ms>|<events>`
  events = `,`-separated: `w<ms>` time passes · `u<hex>` the client has a chunk (`u-`: a zero-length read) ·
           `d<hex>` the covert has a chunk · `U` the client ends its stream · `D` the covert ends its stream
answer: `alive:<b>|died:<index of the event that ended the tunnel, or ->|up:<hex>|down:<hex>|lost:<n>|cli:<hex>|cov:<hex>`

The configuration is the canonical one (`canonicalInit`, `armsOf canonicalLoop`: both connections armed in
front of the loop and re-armed by every iteration); `CJ.Props.C04Relay.loop_skeleton_matches` /
`source_arms_both` compare it with the source under check. -/
namespace CJ.Drv.RelayClock
open CJ.RelayClock CJ.Drv

def parseEvt (s : String) : Option Evt :=
  if s == "U" then some (.eof true)
  else if s == "D" then some (.eof false)
  else match s.toList with
    | 'w' :: r => do some (.wait (← (String.ofList r).toNat?))
    | 'u' :: r => do some (.chunk true (← parseHex (String.ofList r)))
    | 'd' :: r => do some (.chunk false (← parseHex (String.ofList r)))
    | _ => none

def textHex (s : String) : String := toHex s.toUTF8.toList

def handle (args : List String) : Option String :=
  match args with
  | [i, st, evs] => do
    let c : Cfg := { init := ← i.toNat?, stall := ← st.toNat? }
    let es ← (fields evs ",").mapM parseEvt
    let r := run c es
    let died := match diedAt c (start c) 0 es with
      | some k => toString k
      | none => "-"
    some (s!"alive:{showBool r.alive}|died:{died}|up:" ++ toHex r.up ++ "|down:" ++ toHex r.down ++
      s!"|lost:{r.lost}|cli:" ++ textHex r.cli ++ "|cov:" ++ textHex r.cov)
  | _ => none

end CJ.Drv.RelayClock
