import CJ.Model.ConnStation
import CJ.Gen.ConnCandidates
import CJ.Drv.ConnHandler
/-!
Driver for the station-across-connections model (C04).

`connseq|<tids>|<conn>#<conn>#…`, each `<conn>` = `<geo>~<count>~<segments>~<passes>`
→ per connection the action trace (tokens of `CJ.Drv.ConnHandler`) followed by ` own=<tids>` — the
station's wrapping transports after the connection —, connections joined by ` # `.

* `segments`: what arrives at the socket, `;`-separated, same tokens as the events of a `conn|` line.  A
  data segment is handed to the handler as the scripted connection of the harness (and a receive queue
  read at once) hands it out: `Read(buf[:])` results of at most `readBufLen` bytes (`drain`; a zero-length
  segment is a zero-length read).  `readBufLen` is the regenerated length of the handler's buffer.
* `passes`: observed verdicts, pass by pass, as on a `conn|` line.

The getter is the model's `Getter.fresh`; the station starts with `tids` and every connection is served
by `ConnStation.run`.
-/
namespace CJ.Drv.ConnStation
open CJ.ConnHandler CJ.ConnStation CJ.Drv CJ.Drv.ConnHandler

def splitSeg (cap : Nat) : Ev → List Ev
  | .data bs => if bs.isEmpty then [.data []] else (drain cap bs.length bs).map .data
  | e => [e]

def insertNat (x : Nat) : List Nat → List Nat
  | [] => [x]
  | y :: ys => if x ≤ y then x :: y :: ys else y :: insertNat x ys

def sortNat (l : List Nat) : List Nat := l.foldr insertNat []

/-- `none`: unparsable; `some none`: the observed verdicts contradict each other -/
def parseConn (s : String) : Option (Option (Conn Nat Nat)) :=
  match s.splitOn "~" with
  | [geo, count, segs, passes] => do
    let geo ← parseGeo geo
    let count ← count.toNat?
    let segs ← (fields segs ";").mapM parseEv
    let evs := (segs.map (splitSeg CJ.Gen.ConnCandidates.readBufLen)).flatten
    let ps ← (fields passes ";").mapM parsePass
    let lens := cumLens 0 evs
    if ps.length > lens.length then none else
    let obs : Obs := ((ps.zip lens).map fun (p, l) => p.map fun (t, v) => (t, l, v)).flatten
    if !consistent obs then some none else
    let cls : Nat → Bytes → Verdict Nat := fun t buf =>
      match lookup obs t buf.length with
      | some v => v
      | none => .err
    let order : Nat → List Nat := fun i =>
      match ps[i]? with
      | some p => p.map (·.1)
      | none => []
    let sched : Nat → List Nat → List Nat := fun i ts =>
      let o := order i
      eraseDupsNat (o.filter (ts.contains ·)) ++ ts.filter (!o.contains ·)
    some (some ⟨cls, sched, geo, count, evs⟩)
  | _ => none

def handle (args : List String) : Option String :=
  match args with
  | [tids, conns] => do
    let ts ← parseNatList tids
    let cs ← (conns.splitOn "#").mapM parseConn
    match cs.mapM id with
    | none => some "inconsistent"
    | some cs =>
      let res := run .fresh ts cs
      some (joinWith " # " (res.map fun p =>
        joinWith " " (p.1.filterMap showAct) ++ " own=" ++ joinWith "," ((sortNat p.2).map toString)))
  | _ => none

end CJ.Drv.ConnStation
