import CJ.Model.Registrar
import CJ.Gen.C12Wrapper
import CJ.Drv.Util
import CJ.Drv.OverrideCidr
/-! Driver for the registrar model (C12).

`registrar|<cfg>|<req>|<ext>|<regMethod>|<clientAddr>` where
* cfg = `auth,hasOverrides,enforce,pctMin,pctPrefix;<min subnets>;<prefix subnets>;<exclusions>`,
  subnets separated by `/`, each `isV4:base:ones:weight:port:pfx:label` (an entry given as parsed values) or
  `T<hex of the cidr text>:weight:port:pfx:label` (an entry given as the configuration file has it: the model
  decodes the text, `CJ.OverrideCidr.entry`; a text the decoder refuses makes the line `bad-op`: such a
  configuration is not loaded), pfx = `-` or `id~prefixhex~flush`,
  label = `-` (transport field unset) | n (`"<Name>_Transport"` of pb.TransportType n) | `x` (names no transport)
* req = `hasPayload,secretLen,v4,v6,transport,disable,source,regAddr,params,forgedResp,forgedBytes,forgedSig`
  params = `-` | `P:id:prefixhex:flush:randomize` (each `-` if absent) | `O:token`; forgedResp = `-` | `v4.port`
* ext = `sel4,sel6,transportKnown,parseOk,ovSel,unmarshal,port,pctDraw,uNum,uDen,hostDraw,sendOk`
  sel4 = `e` | `n` | `addr:randPort`; sel6 = `e` | `hex:randPort`; ovSel = `-` | `e` | `id~prefixhex~flush`;
  unmarshal = `e` | `id:prefixhex:flush:randomize`; port = `e` | n
Answer: `ok|C=<resp>|F=<resp>|S=<signed>|src=<n>|addr=<hex>|keep=<secret><payload>` (resp = `v4,v6,port,params`;
signed = `-` both RegRespBytes and RegRespSignature absent / the response they carry if they are the registrar's
own over one response / `BADSIG` anything else, e.g. bytes supplied by the client), `err <kind>`, `panic <where>`.
The wrapper stage runs with the facts regenerated from the code (`CJ.Gen.c12Wrapper`).
`uni|<cfg>|<req>|<regMethod>|<clientAddr>|<sendOk>` → the wrapper forwarded by `RegisterUnidirectional`
(`ok|F=…|S=…|src=…|addr=…|keep=…`) or `err`.
`station|<v6>|<disable>|<clientParams>|<dC>|<dR>|<src>|<rr>`: `NewRegistrationC2SWrapper` for one family;
dC / dR = `f` | `4:<addr>:<port>` | `r:<hex>:<port>` (the station's own derivation with the client's / the
response's parameters), src = `i` | `4` | `6`, rr = `-` | `v4,v6,port,params` → `ok|<addr>|<port>|<params>` or `reject <why>`.
`choose|w,w,…|a|b` → index chosen by the weighted choice or `-`. -/
namespace CJ.Drv.Registrar
open CJ.Registrar CJ.Drv

def optField (s : String) (f : String → Option α) : Option (Option α) :=
  if s == "-" then some none else (f s).map some

def parseInt (s : String) : Option Int := s.toInt?

def parsePP : List String → Option PrefixParams
  | [id, pre, fl, rnd] => do
    some { prefixId := ← optField id parseInt, pbytes := ← optField pre some,
           flush := ← optField fl parseInt, randomize := ← optField rnd parseBool }
  | _ => none

def parseParams (s : String) : Option (Option Params) :=
  if s == "-" then some none else
  match s.splitOn ":" with
  | "P" :: rest => (parsePP rest).map fun p => some (.pfx p)
  | ["O", tok] => some (some (.opaque tok))
  | _ => none

def parseTriple (s : String) : Option (Int × String × Int) :=
  match s.splitOn "~" with
  | [id, pre, fl] => do some (← parseInt id, pre, ← parseInt fl)
  | _ => none

def parseLabel (s : String) : Option TLabel :=
  if s == "-" then some .unset else if s == "x" then some .unknown else s.toNat?.map .named

def parseSubnet (s : String) : Option Subnet :=
  match s.splitOn ":" with
  | [v4, base, ones, w, port, pfx, lbl] => do
    some { isV4 := ← parseBool v4, base := ← base.toNat?, ones := ← ones.toNat?, weight := ← w.toNat?,
           port := ← port.toNat?, pfx := ← optField pfx parseTriple, label := ← parseLabel lbl }
  | [text, w, port, pfx, lbl] => do
    if !text.startsWith "T" then none else
    let t ← OverrideCidr.hexStr (text.drop 1).toString
    CJ.OverrideCidr.entry t (← w.toNat?) (← port.toNat?) (← optField pfx parseTriple) (← parseLabel lbl)
  | _ => none

def parseCfg (s : String) : Option Cfg :=
  match s.splitOn ";" with
  | [hd, mins, pfxs, excl] =>
    match hd.splitOn "," with
    | [auth, ov, enf, pm, pp] => do
      some { authenticated := ← parseBool auth, hasOverrides := ← parseBool ov, enforce := ← parseBool enf,
             pctMin := ← pm.toNat?, pctPrefix := ← pp.toNat?,
             minSubnets := ← (fields mins "/").mapM parseSubnet,
             prefixSubnets := ← (fields pfxs "/").mapM parseSubnet,
             exclusions := ← (fields excl "/").mapM parseSubnet }
    | _ => none
  | _ => none

def parseForged (s : String) : Option (Option Resp) :=
  if s == "-" then some none else
  match s.splitOn "." with
  | [a, p] => do some (some { v4 := some (← a.toNat?), port := some (← p.toNat?) })
  | _ => none

def parseReq (s : String) : Option Req :=
  match s.splitOn "," with
  | [pay, sl, v4, v6, tr, dis, src, addr, params, fr, fb, fs] => do
    some { hasPayload := ← parseBool pay, secretLen := ← sl.toNat?, v4 := ← parseBool v4, v6 := ← parseBool v6,
           transport := ← tr.toNat?, disable := ← parseBool dis, source := ← src.toNat?,
           regAddr := ← optField addr some, params := ← parseParams params,
           forgedResp := ← parseForged fr, forgedBytes := fb, forgedSig := fs }
  | _ => none

def parseSel4 (s : String) : Option Sel4 :=
  if s == "e" then some .err else if s == "n" then some .notV4 else
  match s.splitOn ":" with
  | [a, rp] => do some (.ok (← a.toNat?) (← parseBool rp))
  | _ => none

def parseSel6 (s : String) : Option Sel6 :=
  if s == "e" then some .err else
  match s.splitOn ":" with
  | [a, rp] => do some (.ok a (← parseBool rp))
  | _ => none

def parseOvSel (s : String) : Option OvSel :=
  if s == "-" then some .nothing else if s == "e" then some .err else
  (parseTriple s).map fun (id, pre, fl) => .fields id pre fl

def parseExt (s : String) : Option Ext :=
  match s.splitOn "," with
  | [s4, s6, known, pok, ov, um, port, pd, un, ud, hd, send] => do
    some { sel4 := ← parseSel4 s4, sel6 := ← parseSel6 s6, transportKnown := ← parseBool known,
           parseOk := ← parseBool pok, ovSel := ← parseOvSel ov,
           unmarshal := ← (if um == "e" then some none else (parsePP (um.splitOn ":")).map some),
           port := ← (if port == "e" then some none else port.toNat?.map some),
           pctDraw := ← pd.toNat?, uNum := ← un.toNat?, uDen := ← ud.toNat?, hostDraw := ← hd.toNat?,
           sendOk := ← parseBool send }
  | _ => none

def showOpt (f : α → String) : Option α → String
  | some a => f a
  | none => "-"

def showPP (p : PrefixParams) : String :=
  -- absent and empty prefix bytes are printed alike (`-`): protobuf does not keep the difference reliably
  let pb := match p.pbytes with | some "" => "-" | some b => b | none => "-"
  joinWith ":" [showOpt toString p.prefixId, pb, showOpt toString p.flush, showOpt showBool p.randomize]

def showParams : Option Params → String
  | none => "-"
  | some (.pfx p) => "P:" ++ showPP p
  | some (.opaque t) => "O:" ++ t

def showResp (r : Resp) : String :=
  joinWith "," [showOpt toString r.v4, showOpt id r.v6, showOpt toString r.port, showParams r.params]

def showSigned (f : Fwd) : String :=
  match f.respBytes, f.respSig with
  | .absent, .absent => "-"
  | .registrar r, .registrar r' => if r = r' then showResp r else "BADSIG"
  | _, _ => "BADSIG"

def showFwd (f : Fwd) : List String :=
  ["F=" ++ showOpt showResp f.resp, "S=" ++ showSigned f, s!"src={f.source}", "addr=" ++ showOpt id f.addr,
   "keep=" ++ showBool f.secretKept ++ showBool f.payloadKept]

def showOutcome : Outcome → String
  | .err k => "err " ++ k
  | .panic w => "panic " ++ w
  | .ok c f => joinWith "|" (["ok", "C=" ++ showResp c] ++ showFwd f)

def handle (args : List String) : Option String :=
  match args with
  | [cfg, req, ext, m, a] => do
    let out := registerBidirectional CJ.Gen.c12Wrapper (← parseCfg cfg) (← parseReq req) (← parseExt ext) (← m.toNat?)
      (← optField a some)
    some (showOutcome out)
  | _ => none

def handleUni (args : List String) : Option String :=
  match args with
  | [cfg, req, m, a, send] => do
    match registerUnidirectional CJ.Gen.c12Wrapper (← parseCfg cfg) (← parseReq req) (← m.toNat?) (← optField a some)
        (← parseBool send) with
    | none => some "err"
    | some f => some (joinWith "|" ("ok" :: showFwd f))
  | _ => none

def parseRespFull (s : String) : Option (Option Resp) :=
  if s == "-" then some none else
  match s.splitOn "," with
  | [a, b, p, ps] => do
    some (some { v4 := ← optField a (·.toNat?), v6 := ← optField b some, port := ← optField p (·.toNat?),
                 params := ← parseParams ps })
  | _ => none

def parseDerived (s : String) : Option Derived :=
  if s == "f" then some .fail else
  match s.splitOn ":" with
  | ["4", a, p] => do some (.ok (.v4 (← a.toNat?)) (← p.toNat?))
  | ["r", h, p] => do some (.ok (.raw h) (← p.toNat?))
  | _ => none

def parseKind (s : String) : Option IPKind :=
  if s == "i" then some .invalid else if s == "4" then some .v4 else if s == "6" then some .v6 else none

def showAddr : Addr → String
  | .v4 a => s!"4:{a}"
  | .raw h => "r:" ++ h

def handleStation (args : List String) : Option String :=
  match args with
  | [v6, dis, cp, dC, dR, src, rr] => do
    match stationApply (← parseBool v6) (← parseBool dis) (← parseParams cp) (← parseDerived dC) (← parseDerived dR)
        (← parseKind src) (← parseRespFull rr) with
    | .reject why => some ("reject " ++ why)
    | .ok ph port ps => some (joinWith "|" ["ok", showAddr ph, toString port, showParams ps])
  | _ => none

def handleChoose (args : List String) : Option String :=
  match args with
  | [ws, a, b] => do
    let r := choose (← parseNatList ws) (← a.toNat?) (← b.toNat?)
    some (showOpt toString r)
  | _ => none

end CJ.Drv.Registrar
