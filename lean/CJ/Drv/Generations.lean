import CJ.Model.Generations
import CJ.Drv.Util
/-!
Driver for the station's table of generations (C01).

`gens|<op>;<op>;…` on an empty table (configurations are numbers):
   `A<gen>:<id>` AddGeneration → the index used | `R<g>` RemoveGeneration → `ok` | `U<g>:<id>` UpdateGeneration → `ok` |
   `T<g>` IsTakenGeneration → `0`/`1` | `L<g>` GetSubnetsByGeneration → `<id>` or `-` (missing or nil)
   answer: the answers joined by `;`, then ` # ` and the table sorted by key (`<key>=<id>` / `<key>=nil`, joined by `,`)
`gensload|<gen>:<id>,…` (`none`: no entries) → the table after the loop of SubnetsFromTomlFile, same notation
-/
namespace CJ.Drv.Generations
open CJ.Generations CJ.Drv

def parseOp (s : String) : Option (Op Nat) :=
  match s.toList with
  | 'A' :: rest =>
    match (String.ofList rest).splitOn ":" with
    | [g, i] => do some (.add (← g.toInt?) (← i.toNat?))
    | _ => none
  | 'U' :: rest =>
    match (String.ofList rest).splitOn ":" with
    | [g, i] => do some (.update (← g.toNat?) (← i.toNat?))
    | _ => none
  | 'R' :: rest => do some (.remove (← (String.ofList rest).toNat?))
  | 'T' :: rest => do some (.taken (← (String.ofList rest).toNat?))
  | 'L' :: rest => do some (.get (← (String.ofList rest).toNat?))
  | _ => none

def showAns : Ans Nat → String
  | .index g => toString g
  | .done => "ok"
  | .bool b => showBool b
  | .cfg (some i) => toString i
  | .cfg none => "-"

def insertKey (x : Nat × Option Nat) : List (Nat × Option Nat) → List (Nat × Option Nat)
  | [] => [x]
  | y :: ys => if x.1 < y.1 then x :: y :: ys else y :: insertKey x ys

def dump (m : GMap Nat) : String :=
  joinWith "," ((m.foldl (fun acc x => insertKey x acc) []).map fun p =>
    match p.2 with
    | some i => s!"{p.1}={i}"
    | none => s!"{p.1}=nil")

def handle : List String → Option String
  | [ops] => do
    let l ← (fields ops ";").mapM parseOp
    let r := run ([] : GMap Nat) l
    some (joinWith ";" (r.2.map showAns) ++ " # " ++ dump r.1)
  | _ => none

def parseEntry (s : String) : Option (Int × Nat) :=
  match s.splitOn ":" with
  | [g, i] => do some (← g.toInt?, ← i.toNat?)
  | _ => none

def handleLoad : List String → Option String
  | [es] => do
    let l ← (if es == "none" then some [] else (es.splitOn ",").mapM parseEntry)
    some (dump (load l))
  | _ => none

end CJ.Drv.Generations
