/-! Shared parsing / printing helpers for the line-protocol driver (core Lean only). -/
namespace CJ.Drv

def splitOn (s : String) (sep : String) : List String := s.splitOn sep

/-- split, but the empty string gives the empty list -/
def fields (s : String) (sep : String) : List String :=
  if s.isEmpty then [] else s.splitOn sep

def hexVal (c : Char) : Option Nat :=
  if '0' ≤ c ∧ c ≤ '9' then some (c.toNat - '0'.toNat)
  else if 'a' ≤ c ∧ c ≤ 'f' then some (c.toNat - 'a'.toNat + 10)
  else if 'A' ≤ c ∧ c ≤ 'F' then some (c.toNat - 'A'.toNat + 10)
  else none

def parseHexAux : List Char → List UInt8 → Option (List UInt8)
  | [], acc => some acc.reverse
  | [_], _ => none
  | a :: b :: rest, acc =>
    match hexVal a, hexVal b with
    | some x, some y => parseHexAux rest (UInt8.ofNat (x * 16 + y) :: acc)
    | _, _ => none

/-- hex string → bytes (`-` or empty = empty) -/
def parseHex (s : String) : Option (List UInt8) :=
  if s == "-" then some [] else parseHexAux s.toList []

def hexDigit (n : Nat) : Char :=
  if n < 10 then Char.ofNat (n + '0'.toNat) else Char.ofNat (n - 10 + 'a'.toNat)

def toHex (bs : List UInt8) : String :=
  if bs.isEmpty then "-" else
  String.ofList (bs.foldr (fun b acc => hexDigit (b.toNat / 16) :: hexDigit (b.toNat % 16) :: acc) [])

def parseNatList (s : String) (sep : String := ",") : Option (List Nat) :=
  (fields s sep).mapM (·.toNat?)

def parseBool (s : String) : Option Bool :=
  if s == "1" || s == "true" then some true
  else if s == "0" || s == "false" then some false else none

def showBool (b : Bool) : String := if b then "1" else "0"

def sortStrings (l : List String) : List String :=
  (l.toArray.qsort (· < ·)).toList

def joinWith (sep : String) (l : List String) : String := sep.intercalate l

end CJ.Drv
