import CJ.Model.ConnTimed
import CJ.Drv.ConnHandler
/-!
Driver for the handler on the clock (C03).

`conntime|<draw>|<count>|<tids>|<timed events>|<passes>`  →  `T<timeout ms>`, the action trace (tokens of the
`conn` driver), `@<ms>` the time the handler returned (`@H<ms>`: handed to the proxy).

* `draw`          what `rand.Int63n(5000)` answered (the harness seeds the generator and predicts it)
* `timed events`  what the peer does, **as scripted**: `<arrival ms>:<event>` (`;`-separated, events as in
                  `conn`); the model decides which of them a read still returns
* `passes`        the verdicts the real transports gave, as in `conn`; they are attached to the buffer
                  lengths of the reads the *model* lets through
-/
namespace CJ.Drv.ConnTimed
open CJ.ConnHandler CJ.ConnTimed CJ.Drv CJ.Drv.ConnHandler

def parseTEv (s : String) : Option TEv :=
  match s.splitOn ":" with
  | [t, e] => do some ⟨← t.toNat?, ← parseEv e⟩
  | _ => none

def showEnd : End → String
  | .closed t => s!"@{t}"
  | .handedOff t => s!"@H{t}"

def handle (args : List String) : Option String :=
  match args with
  | [draw, count, tids, events, passes] => do
    let draw ← draw.toNat?
    let count ← count.toNat?
    let ts ← parseNatList tids
    let script ← (fields events ";").mapM parseTEv
    let ps ← (fields passes ";").mapM parsePass
    let evs := present (0 + timeoutMs draw) 0 script
    let lens := cumLens 0 evs
    if ps.length > lens.length then none else
    let obs : Obs := ((ps.zip lens).map fun (p, l) => p.map fun (t, v) => (t, l, v)).flatten
    if !consistent obs then some "inconsistent" else
    let cls : Nat → Bytes → Verdict Nat := fun t buf => (lookup obs t buf.length).getD .err
    let order : Nat → List Nat := fun i => ((ps[i]?).getD []).map (·.1)
    let sched : Nat → List Nat → List Nat := fun i ts =>
      let o := order i
      eraseDupsNat (o.filter (ts.contains ·)) ++ ts.filter (!o.contains ·)
    let r := thandler cls sched 0 draw .ok count ts script
    some (joinWith " " ([s!"T{timeoutMs draw}"] ++ r.1.filterMap showAct ++ [showEnd r.2]))
  | _ => none

end CJ.Drv.ConnTimed
