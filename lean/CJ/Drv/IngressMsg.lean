import CJ.Model.IngressMsg
import CJ.Drv.Ingress
/-! Driver for the field-level models of the three message entry points (C11): `ingress|<op>|…`.

* `c2sw|<wrapper>|<clientAddr>|<regMethod>|<auth>|<keyLen>|<rrMarshalOk>|<marshalOk>` — `processC2SWrapper`.
  `wrapper` = `N` (nil) or `<secret hex>;<source>;<addr: N | hex>;<payload 0/1>;<response 0/1>`;
  `clientAddr` = `N` | hex (`-` = empty, not nil).
  Answers `err nobody` / `err secret` / `err marshal` /
  `fwd src=<n> addr=<N|hex> secret=<hex> payload=<0/1> rr=<0/1> signed=<0/1>` / `panic <what>`.
* `bdreq|<payload>|<keys>|<v4>|<v6>|<sel4: E | hex>|<sel6: E | hex>|<transport>|<params>|<override>|<dstport>`
  — `processBdReq`. Answers `nobody` / `error` / `response v4=<n|-> v6=<hex|N>` / `panic <what>`.
* `zmq|<unmarshalOk>|<payload>|<v4>|<v6>|<disable>|<regAddr: N | hex>|<keys>|<rr>|<en4>|<en6>|<built4>|<built6>|<geo>`
  — `parseRegMessage`. `rr` = `N` or `<dstPort: N | n>;<hasParams 0/1>;<ipv4: N | n>;<ipv6: N | hex>`;
  `built` = `E` (NewRegistration failed) or `<phantom hex>:<port>`.
  Answers `error` / `regs <phantom hex>:<port>,…` (`regs` alone = no registration, no error) / `panic <what>`.
No field is defaulted: anything unparsable gives `none` (the driver prints `bad-op`). -/
namespace CJ.Drv.IngressMsg
open CJ.Codec CJ.Ingress CJ.IngressMsg CJ.Drv

/-- `N` = nil, otherwise hex (`-` = empty) -/
def parseOptHex (s : String) : Option (Option Bytes) :=
  if s == "N" then some none else (parseHex s).map some

def parseOptNat (s : String) : Option (Option Nat) :=
  if s == "N" then some none else (s.toNat?).map some

def showOptHex : Option Bytes → String
  | none => "N"
  | some b => toHex b

def parseWrapper (s : String) : Option (Option Wrapper) :=
  if s == "N" then some none
  else match s.splitOn ";" with
    | [sec, src, addr, pl, rr] => do
      some (some ⟨← parseHex sec, ← src.toNat?, ← parseOptHex addr, ← parseBool pl, ← parseBool rr⟩)
    | _ => none

def showC2S : Except C2SErr Forward → String
  | .error .noBody => "err nobody"
  | .error .secret => "err secret"
  | .error .marshal => "err marshal"
  | .ok f => s!"fwd src={f.source} addr={showOptHex f.addr} secret={toHex f.secret} payload={showBool f.hasPayload} rr={showBool f.hasResponse} signed={showBool f.signed}"

/-- `E` = `Select` returned an error, otherwise the bytes of the address -/
def parseSel (s : String) : Option (Option Bytes) :=
  if s == "E" then some none else (parseHex s).map some

def showBd : Except BdResult (Option Nat × Option Bytes) → String
  | .error .errNoC2SBody => "nobody"
  | .error .errOther => "error"
  | .error .response => "error"     -- not produced by the model
  | .ok (a4, a6) =>
    let v4 := match a4 with | some n => toString n | none => "-"
    s!"response v4={v4} v6={showOptHex a6}"

def parseRR (s : String) : Option (Option RegResp) :=
  if s == "N" then some none
  else match s.splitOn ";" with
    | [port, hp, v4, v6] => do
      some (some ⟨← parseOptNat port, ← parseBool hp, ← parseOptNat v4, ← parseOptHex v6⟩)
    | _ => none

def parseBuilt (s : String) : Option (Option Reg) :=
  if s == "E" then some none
  else match s.splitOn ":" with
    | [ph, port] => do some (some ⟨← parseHex ph, ← port.toNat?⟩)
    | _ => none

def showRegs : Option (List Reg) → String
  | none => "error"
  | some l => "regs " ++ ",".intercalate (l.map fun r => s!"{toHex r.phantom}:{r.port}")

def handle (args : List String) : Option String :=
  match args with
  | ["c2sw", w, ca, rm, auth, kl, rrm, mo] => do
    some (Ingress.showOut showC2S (IngressMsg.processC2SWrapper (← parseWrapper w) (← parseOptHex ca) (← rm.toNat?)
      (← parseBool auth) (← kl.toNat?) (← parseBool rrm) (← parseBool mo)))
  | ["bdreq", pl, keys, v4, v6, s4, s6, tr, pa, ov, dp] => do
    let r : BdReq := ⟨← parseBool pl, ← parseBool keys, ← parseBool v4, ← parseBool v6, ← parseSel s4, ← parseSel s6,
      ← parseBool tr, ← parseBool pa, ← parseBool ov, ← parseBool dp⟩
    some (Ingress.showOut showBd (processBdReqAddrs r))
  | ["zmq", um, pl, v4, v6, dis, ra, keys, rr, e4, e6, b4, b6, geo] => do
    let m : ZMsg := ⟨← parseBool pl, ← parseBool v4, ← parseBool v6, ← parseBool dis, ← parseOptHex ra, ← parseBool keys, ← parseRR rr⟩
    some (Ingress.showOut showRegs (IngressMsg.parseRegMessage (← parseBool um) m (← parseBool e4) (← parseBool e6)
      (← parseBuilt b4) (← parseBuilt b6) (← parseBool geo)))
  | _ => none

end CJ.Drv.IngressMsg
