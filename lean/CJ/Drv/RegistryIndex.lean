import CJ.Model.RegistryIndex
import CJ.Drv.Util
/-! Driver for the string-indexed registry.
`regidx|<unusedT>|<activeT>|<enabled>|<op>;…` → `<out>;…|D:<decoys>|I:<index records>`
Phantom texts and identifiers travel as hex of their bytes (`-` = empty); a byte becomes the character
with that code, so the model sees the Go string unit by unit.  Index strings are printed as hex. -/
namespace CJ.Drv.RegistryIndex
open CJ.Registry CJ.RegistryIndex CJ.Drv

def strOfHex (h : String) : Option String := do
  let bs ← parseHex h
  some (String.ofList (bs.map fun b => Char.ofNat b.toNat))

def hexOfUnits (l : List Nat) : String := toHex (l.map UInt8.ofNat)
def hexOfStr (s : String) : String := hexOfUnits (units s)

def unitsOfHex (h : String) : Option (List Nat) := do
  let bs ← parseHex h
  some (bs.map (·.toNat))

def parseOp (s : String) : Option KOp :=
  match s.splitOn "," with
  | ["t", ph, id, tr, now] => do some (.track (← strOfHex ph, ← strOfHex id) (← tr.toNat?) (← now.toNat?))
  | ["r", ph, id, tr, now] => do some (.register (← strOfHex ph, ← strOfHex id) (← tr.toNat?) (← now.toNat?))
  | ["m", ph, id, tr] => do some (.markActive (← strOfHex ph, ← strOfHex id) (← tr.toNat?))
  | ["c", now] => do some (.collect (← now.toNat?))
  | ["x", ix, now] => do some (.removeIdx (← unitsOfHex ix) (← now.toNat?))
  | ["s", now] => do some (.sweep (← now.toNat?))
  | ["l", ph] => do some (.lookup (← strOfHex ph))
  | ["T"] => some .total
  | ["U"] => some .totalTimeouts
  | _ => none

def showOut : KOut → String
  | .base .ok => "ok" | .base .err => "err" | .base .new => "new" | .base .dup => "dup"
  | .base .upd => "upd" | .base .none => "none"
  | .base (.swept n v) => s!"swept {n} {v}"
  | .base (.keys l) => joinWith " " ("keys" :: sortStrings (l.map fun k => hexOfStr k.1 ++ "," ++ hexOfStr k.2))
  | .base (.regs l) => joinWith " " ("regs" :: sortStrings (l.map hexOfStr))
  | .base (.bool b) => showBool b
  | .base (.num n) => toString n
  | .idxs l => joinWith " " ("idx" :: sortStrings (l.map hexOfUnits))

def dump (s : KSt) : String :=
  let d := sortStrings (s.decoys.toList.map fun (k, r) =>
    s!"{hexOfStr k.1},{hexOfStr k.2},{r.transport},{showBool r.valid},{r.regCount}")
  let t := sortStrings (s.timeouts.toList.map fun (i, t) =>
    s!"{hexOfUnits i}={hexOfStr t.decoy},{hexOfStr t.identifier},{t.time},{showBool t.used}")
  "D:" ++ joinWith "/" d ++ "|I:" ++ joinWith "/" t

def handle (args : List String) : Option String :=
  match args with
  | [u, a, en, ops] => do
    let c : Cfg := { unusedT := ← u.toNat?, activeT := ← a.toNat?, enabled := ← parseNatList en }
    let ops ← (fields ops ";").mapM parseOp
    let (s, outs) := ops.foldl (fun (acc : KSt × List String) o =>
      let (s', out) := kstep c acc.1 o
      (s', showOut out :: acc.2)) (kinit, [])
    some (joinWith ";" outs.reverse ++ "|" ++ dump s)
  | _ => none

end CJ.Drv.RegistryIndex
