import CJ.Model.PipelineMsg
import CJ.Drv.Util
/-! Driver for the identity-carrying ingest pipeline (C09).
`pipe|<IngestWorkerCount>|<events>`; events (`,`-separated): `s<id>v` / `s<id>b` offer a message that parses / does not,
`r<id>` let the worker holding `<id>` finish, `c` stop request.  Answer: one settled-state summary per event, `;`-joined:
before the stop request `I<parked>B<buffered>G<held ids>R<recvCtr>D<dropCtr>P<processed ids in order>`,
after it `G<held ids>R<recvCtr>D<dropCtr>ret=<HandleRegUpdates returned>`. -/
namespace CJ.Drv.PipelineMsg
open CJ.PipelineMsg CJ.Drv

def parseEvent (s : String) : Option Event :=
  match s.toList with
  | ['c'] => some .stop
  | 'r' :: ds => do let id ← (String.ofList ds).toNat?; some (.release id)
  | 's' :: rest =>
    match rest.reverse with
    | 'v' :: ds => do let id ← (String.ofList ds.reverse).toNat?; some (.send ⟨id, .valid⟩)
    | 'b' :: ds => do let id ← (String.ofList ds.reverse).toNat?; some (.send ⟨id, .bad⟩)
    | _ => none
  | _ => none

def ids (l : List Msg) : String := joinWith "+" (l.map fun m => toString m.id)
def sortedIds (l : List Msg) : String :=
  joinWith "+" (((l.map (·.id)).toArray.qsort (· < ·)).toList.map toString)

def summary (s : St) : String :=
  if s.cancelled then
    s!"G{sortedIds s.hand}R{s.recvCtr}D{s.dropCtr}ret={showBool (s.dist == .done)}"
  else
    s!"I{s.idle}B{s.buf.length}G{sortedIds s.hand}R{s.recvCtr}D{s.dropCtr}P{ids s.processed}"

def handle (args : List String) : Option String :=
  match args with
  | [w, evs] => do
    let w ← w.toNat?
    let evs ← (fields evs ",").mapM parseEvent
    let (_, outs) := evs.foldl (fun (acc : St × List String) e =>
      let s' := event acc.1 e; (s', summary s' :: acc.2)) (initCfg w, [])
    some (joinWith ";" outs.reverse)
  | _ => none

end CJ.Drv.PipelineMsg
