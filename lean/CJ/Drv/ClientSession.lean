import CJ.Model.ClientSession
import CJ.Drv.Derive
/-!
Driver for the client-transport state machine and the station's ingest of a wrapper with a
registration response (C01).

`chist|<transport>|<seed hex>|<op>;<op>;…` → the answers of the calls, joined by `;`
   op = `S:<arg>` SetParams | `P` Prepare | `X:<tp>:<unchecked>` SetSessionParams | `G` GetParams |
        `R:<disable>:<tp>` UnpackRegResp | `D` GetDstPort(seed) | `W` PrepareKeys + WrapConn
   arg = `n` nil | `x` foreign | `g<r>` | `d<r>` | `p<id>,<r>` | `c<id>,<r>`;  tp = `-` | `g<r>` | `d<r>` | `p<id>,<r>`
   answer = `ok` | `err` | `panic` | `refused` | `params <tp>` | `port <n>` | `err <kind>` | `prefix <id>`
`ingest|<secret>|<ver>|<gen>|<v6>|<transport>|<params>|<disable>|<resp>|<cfg>|<draws>`
   resp = `-` | `<tp>:<dst_port or -1>:<address hex or ->`
   → `ok <seed> <addr> <port> <ident> <registered params>` | the error answers of `derive|station|…`
-/
namespace CJ.Drv.ClientSession
open CJ.Phantom CJ.Port CJ.Derive CJ.ClientSession CJ.Drv CJ.Drv.Derive

def parseIdRand (s : String) : Option (Int × Bool) :=
  match s.splitOn "," with
  | [id, r] => do
    let i ← id.toInt?
    if i < 0 then none else some (i, ← parseBool r)   -- the random prefix (−1) is not modelled
  | _ => none

def parseArg (s : String) : Option Arg :=
  if s == "n" then some .nil else if s == "x" then some .foreign else
  match s.toList with
  | 'g' :: rest => do some (.generic (← parseBool (String.ofList rest)))
  | 'd' :: rest => do some (.dtls (← parseBool (String.ofList rest)))
  | 'p' :: rest => do let (i, r) ← parseIdRand (String.ofList rest); some (.prefix i r)
  | 'c' :: rest => do let (i, r) ← parseIdRand (String.ofList rest); some (.prefix i r)
  | _ => none

def parseTP (s : String) : Option (Option Wire) :=
  if s == "-" then some none else
  match s.toList with
  | 'g' :: rest => do some (some (.generic (← parseBool (String.ofList rest))))
  | 'd' :: rest => do some (some (.dtls (← parseBool (String.ofList rest))))
  | 'p' :: rest => do let (i, r) ← parseIdRand (String.ofList rest); some (some (.prefix i r))
  | _ => none

def parseOp (s : String) : Option Op :=
  match s.splitOn ":" with
  | ["S", a] => do some (.setParams (← parseArg a))
  | ["P"] => some .prepare
  | ["X", tp, u] => do some (.setSession (← parseTP tp) (← parseBool u))
  | ["G"] => some .getParams
  | ["R", d, tp] => do some (.unpack (← parseBool d) (← parseTP tp))
  | ["D"] => some .getDstPort
  | ["W"] => some .wrap
  | _ => none

def showWire : Option Wire → String
  | none => "-"
  | some (.generic r) => "g" ++ showBool r
  | some (.dtls r) => "d" ++ showBool r
  | some (.prefix id r) => s!"p{id},{showBool r}"

def showParams : Option Params → String
  | none => "?"
  | some .absent => "-"
  | some (.generic r) => "g" ++ showBool r
  | some (.dtls r) => "d" ++ showBool r
  | some (.prefix id r) => s!"p{id},{showBool r}"

def showRes : Res → String
  | .ok => "ok" | .err => "err" | .panic => "panic" | .refused => "refused"
  | .params w => "params " ++ showWire w
  | .port (.ok p) => s!"port {p}"
  | .port (.err e) => "err " ++ perrName e
  | .port (.panic _) => "panic"
  | .sent id => s!"prefix {id}"

def handleHist (args : List String) : Option String :=
  match args with
  | [tr, seed, ops] => do
    let t ← parseTransport tr
    let seed ← parseHex seed
    let ops ← (ops.splitOn ";").mapM parseOp
    let s : Stream := slowCrypto.hk.hk seed labelPort
    let (_, rs) := run genConsts s slowCrypto.hk.lim t {} ops
    some (joinWith ";" (rs.map showRes))
  | _ => none

def parseResp (s : String) : Option (Option Resp) :=
  if s == "-" then some none else
  match s.splitOn ":" with
  | [tp, port, addr] => do
    let tp ← parseTP tp
    let port ← if port == "-1" then some none else (do some (some (← port.toNat?)))
    let addr ← if addr == "-" then some none else (do some (some (← parseHex addr)))
    some (some ⟨tp, port, addr⟩)
  | _ => none

def handleIngest (args : List String) : Option String :=
  match args with
  | [secret, ver, gen, v6, tr, params, disable, resp, cfg, draws] => do
    let r : Reg := { secret := ← parseHex secret, ver := ← ver.toNat?, gen := ← gen.toNat?, v6 := ← parseBool v6,
                     transport := ← parseTransport tr, params := ← parseTP params }
    let disable ← parseBool disable
    let rr ← parseResp resp
    let cfg ← Phantom.parseCfg cfg
    let d ← Phantom.parseDraws draws
    let ks := CJ.HKDF.firstBytes (CJ.SHA256.ofList r.secret) keySalt.toUTF8 ByteArray.empty 192
    let cA : Thunk SeedCache := Thunk.mk fun _ => mkSeedCache (ks.extract 0 16).data.toList
    let cB : Thunk SeedCache := Thunk.mk fun _ => mkSeedCache (ks.extract 104 120).data.toList
    let crypto := cryptoFor r.secret ks cA cB
    let out ← Phantom.runBoth d (stationIngest crypto genConsts cfg r disable rr)
    match out with
    | .ok _ =>
      some (showD out ++ " " ++ showParams (registeredParams genConsts r.transport r.ver (ingestParams disable rr r.params)))
    | _ => some (showD out)
  | _ => none

end CJ.Drv.ClientSession
