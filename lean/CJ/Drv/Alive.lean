import CJ.Model.Alive
import CJ.Drv.Util
/-! Driver for the object model of held encodings (C15).

`alive|<codec>|<ops>`: `ops` = `E` (encode the next value and keep the result) / `D<j>` (decode what
encoder call `j` returned), joined by `,`; the codec is one of the encoders of the property, all of
which take their output object fresh.  Answer: `ok a,b,…` - for every `D`, the number of the value
that came out (`x` = none). A `D<j>` before call `j` is not a case (`bad-op`). -/
namespace CJ.Drv.Alive
open CJ.Alive CJ.Drv

def codecs : List String :=
  ["nil", "xor", "ctr", "gcm", "reqframe", "respframe", "txt", "message", "query", "response"]

def parseOp (s : String) : Option (Option Nat) :=
  if s = "E" then some none
  else match s.toList with
    | 'D' :: r => (String.mk r).toNat?.map some
    | _ => none

/-- every `D j` refers to a call that has happened -/
def wellFormed : List (Option Nat) → Nat → Bool
  | [], _ => true
  | none :: r, n => wellFormed r (n + 1)
  | some j :: r, n => j < n && wellFormed r n

def handle : List String → Option String
  | [codec, ops] =>
    if ¬ codecs.contains codec then none
    else do
      let l ← (if ops = "" then some [] else (splitOn ops ",").mapM parseOp)
      if ¬ wellFormed l 0 then none
      else
        let st := run (β := Nat) .fresh id some (numbered l 0)
        some ("ok " ++ joinWith "," (st.out.map fun | some i => toString i | none => "x"))
  | _ => none

end CJ.Drv.Alive
