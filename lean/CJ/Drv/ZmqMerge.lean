import CJ.Model.ZmqMerge
import CJ.Drv.Util
/-! Driver for the ZMQ front (C09).

`zmqmerge|<nsources>|<events>`; events (`,`-separated): `a<i>.<f>` frame f reaches source i, `r<i>` reader i takes the
head of its socket queue, `f<i>` the forwarder takes reader i's frame and publishes it (sources `i < nsources`, else bad-op).
Answer: `out=<i>.<f>+…;pending=<frames arrived and not yet published>`.

`zmqrun|<cap>|<events>`; events: `v<f>` the loop receives frame f (Go picks the send when both it and Done are ready),
`V<f>` the same with Done picked, `t` the consumer takes one message, `c` cancel, `p` PrintAndReset.
Answer: one settled summary per event, `;`-joined, `n=<len(regChan)>,m=<zmqMessages>,d=<dropped>,T=<totalDropped>,ret=<0|1>`,
then `|taken=<f+f…>|rest=<f+f…>` (what the consumer took, in order, and what is left in regChan at the end). -/
namespace CJ.Drv.ZmqMerge
open CJ.ZmqMerge CJ.Drv

def parseAct (n : Nat) (s : String) : Option Act :=
  match s.toList with
  | 'a' :: rest =>
    match (String.ofList rest).splitOn "." with
    | [i, f] => do
      let i ← i.toNat?; let f ← f.toNat?
      if i < n then some (.arrive i f) else none
    | _ => none
  | 'r' :: ds => do let i ← (String.ofList ds).toNat?; if i < n then some (.read i) else none
  | 'f' :: ds => do let i ← (String.ofList ds).toNat?; if i < n then some (.forward i) else none
  | _ => none

def showOut (l : List Frame) : String := joinWith "+" (l.map fun fr => s!"{fr.src}.{fr.val}")

def pendingAll (s : St) (n : Nat) : Nat :=
  (List.range n).foldl (fun acc i => acc + (s.queue i).length + (s.hand i).toList.length) 0

def parseRAct (s : String) : Option RAct :=
  match s.toList with
  | ['t'] => some .take
  | ['c'] => some .cancel
  | ['p'] => some .reset
  | 'v' :: ds => do let f ← (String.ofList ds).toNat?; some (.recv f false)
  | 'V' :: ds => do let f ← (String.ofList ds).toNat?; some (.recv f true)
  | _ => none

def rsummary (s : Run) : String :=
  s!"n={s.chan.length},m={s.zmqMessages},d={s.dropped},T={s.totalDropped},ret={showBool s.returned}"

def showNats (l : List Nat) : String := joinWith "+" (l.map toString)

def handleMerge (args : List String) : Option String :=
  match args with
  | [n, evs] => do
    let n ← n.toNat?
    let as ← (fields evs ",").mapM (parseAct n)
    let s := run init as
    some s!"out={showOut s.out};pending={pendingAll s n}"
  | _ => none

def handleRun (args : List String) : Option String :=
  match args with
  | [c, evs] => do
    let c ← c.toNat?
    let as ← (fields evs ",").mapM parseRAct
    let (fin, outs) := as.foldl (fun (acc : Run × List String) a =>
      let s' := rstep acc.1 a; (s', rsummary s' :: acc.2)) (initRun c, [])
    some s!"{joinWith ";" outs.reverse}|taken={showNats fin.taken}|rest={showNats fin.chan}"
  | _ => none

/-- dispatch on the model name: `"zmqmerge" :: args` / `"zmqrun" :: args` -/
def handle (args : List String) : Option String :=
  match args with
  | "zmqmerge" :: rest => handleMerge rest
  | "zmqrun" :: rest => handleRun rest
  | _ => none

end CJ.Drv.ZmqMerge
