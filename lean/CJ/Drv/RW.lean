import CJ.Model.RW
import CJ.Gen.LockPrograms
import CJ.Drv.Util
/-! Driver for the RWMutex model (C13).

Threads (comma separated) name the *entry point* the harness calls and the *shape* of the path the call
takes; the program is looked up in `Gen.selectorPaths` (regenerated from the Go source on every run, so
the model always runs the code's current lock programs) by that shape, never by a path name:

* `q:<fams>:<exit>[:tag]` — `RegisterBidirectional`; `<fams>` = the address selections the request
  performs, in order (`46`, `4`, `6`, empty); `<exit>` = `ok` (straight through every function on the way),
  `sel` (error exit right after the last selection: the first early exit in execution order among the
  paths with these selections), `late` (error exit after the selections: the last one), `early` (error
  exit before anything else: the first early exit without selections);
* `u:<exit>[:tag]` — `RegisterUnidirectional`;  `r:<exit>` — `ReloadSubnets` (`ok` / `early`);
* `w:hold` / `h:read` — the harness's stand-ins for a critical section kept open: `selectorMutex.Lock()` /
  `.RLock()`, a gate at which the harness holds the goroutine, `Unlock()` / `RUnlock()`;
* `p:<letters>` = an explicit program (r rlock, u runlock, L lock, U unlock, R readSel, W swapSel, S select,
  t tryrlock, T trylock, G gate).

An entry point without an entry in the table performs no operation on the selector lock (theorem
`extractor_covers`): its program is empty.  Paths with the same shape and the same operations are one
candidate; when the exit class asked for has no candidate the other class is used if it is unambiguous.

* `rw|<threads>|<events>` — coarse run: events `s<i>` (start thread i) and `g<i>` (release thread i from
  the gate inside `Select`), then every parked thread is released; answer `<thread>;<thread>;…|ver=<n>`.
* `rwfind|<threads>` — `deadlock` / `none` (breadth-first search over all fine-grained schedules).
* `rwsched|<threads>` — the fine-grained schedule found by the search: `deadlock:<i>.<i>.…` / `none`.
* `rwevents|<threads>` — a deadlocking sequence of harness events (`s<i>`, `g<i>`), found by depth-first
  search over coarse runs: `deadlock:s0.s1.g0` / `none`; the harness replays it on the real processor.
* `rwrefuse|<threads>` — a sequence of harness events after which some thread has been refused by a failed
  `Try*` acquisition: `refused:s0.s1` / `none`; replayed on the real processor as well.
* `rwrefsched|<threads>` — the same over all fine-grained schedules: `refused:<i>.<i>.…` / `none`.

A request that a failed `Try*` turned away has returned an error: it is printed `done:err` like any other
error exit; a reload that was turned away is `done` and has not increased the version. -/
namespace CJ.Drv.RW
open CJ.RW CJ.Drv

inductive Exit | ok | sel | late | early
deriving DecidableEq, Repr

inductive Kind | req (fams : List Nat) (exit : Exit) | uni (exit : Exit) | rel | raw | hold

def parseOps (s : String) : Option (List Op) :=
  s.toList.mapM fun c =>
    match c with
    | 'r' => some .rlock | 'u' => some .runlock | 'L' => some .lock | 'U' => some .unlock
    | 'R' => some .readSel | 'W' => some .swapSel | 'S' => some .select
    | 't' => some .tryrlock | 'T' => some .trylock | 'G' => some .gate
    | _ => none

def parseExit : String → Option Exit
  | "ok" => some .ok | "sel" => some .sel | "late" => some .late | "early" => some .early
  | _ => none

def parseFams (s : String) : Option (List Nat) :=
  s.toList.mapM fun c => match c with | '4' => some 4 | '6' => some 6 | _ => none

def dedupOps : List (List Op) → List (List Op)
  | [] => []
  | p :: ps => p :: (dedupOps ps).filter (· != p)

/-- the program of the path of entry point `root` with the given shape -/
def lookup (table : List Path) (root : String) (fams : List Nat) (exit : Exit) : Option (List Op) :=
  let paths := table.filter fun p => p.root == root
  if paths.isEmpty then some []
  else
    let exact := paths.filter fun p => p.fams == fams
    -- no path carries these family tags (the conditions no longer name the request's flags): by the number of selections
    let cands := if exact.isEmpty then paths.filter (fun p => (p.ops.filter (· == .select)).length == fams.length) else exact
    let straight := dedupOps ((cands.filter (!·.early)).map (·.ops))
    let early := dedupOps ((cands.filter (·.early)).map (·.ops))
    let (mine, other) := if exit == .ok then (straight, early) else (early, straight)
    match mine with
    | [] => match other with
      | [p] => some p
      | _ => none
    | p :: _ => if exit == .late then mine.getLast? else some p

def parseThread (s : String) : Option (Kind × List Op) :=
  match s.splitOn ":" with
  | "q" :: f :: e :: _ => do
    let fams ← parseFams f
    let exit ← parseExit e
    let p ← lookup CJ.Gen.selectorPaths "RegProcessor.RegisterBidirectional" fams exit
    some (.req fams exit, p)
  | "u" :: e :: _ => do
    let exit ← parseExit e
    let p ← lookup CJ.Gen.selectorPaths "RegProcessor.RegisterUnidirectional" [] exit
    some (.uni exit, p)
  | ["r", e] => do
    let exit ← parseExit e
    let p ← lookup CJ.Gen.selectorPaths "RegProcessor.ReloadSubnets" [] exit
    some (.rel, p)
  | ["w", "hold"] => some (.hold, [.lock, .gate, .unlock])
  | ["h", "read"] => some (.hold, [.rlock, .gate, .runlock])
  | ["p", ops] => (parseOps ops).map fun p => (.raw, p)
  | _ => none

def parseEv (s : String) : Option Ev :=
  match s.toList with
  | 's' :: r => (String.ofList r).toNat?.map .start
  | 'g' :: r => (String.ofList r).toNat?.map .release
  | _ => none

def showVer : Option Nat → String
  | some v => toString v
  | none => "nil"

/-- the answer of a finished request: the version behind each returned address, `err` on an error exit -/
def showReq (fams : List Nat) (exit : Exit) (seen : List (Option Nat)) : String :=
  if exit != .ok then "err"
  else if fams.length == seen.length then
    joinWith "." ((fams.zip seen).map fun (f, v) => (if f == 4 then "4=" else "6=") ++ showVer v)
  else joinWith "." ("?" :: seen.map showVer)

def showThread (c : Coarse) (i : Nat) (k : Kind) (t : Thread) : String :=
  if !c.started.contains i then "idle"
  else if t.prog.isEmpty then
    match k with
    | .req fams exit => if t.refused then "done:err" else "done:" ++ showReq fams exit t.seen
    | .uni exit => if exit == .ok && !t.refused then "done:sent" else "done:err"
    | .rel => "done"
    | .hold => "done"
    | .raw => if t.refused then "done:refused" else "done:" ++ joinWith "." (t.seen.map showVer)
  else if c.parked.contains i then "parked"
  else "blocked"

def handleRun (ths evs : String) : Option String := do
  let specs ← (fields ths ",").mapM parseThread
  let evs ← (fields evs ",").mapM parseEv
  let progs := specs.map (·.2)
  let c ← runEvents progs evs
  let c := drain (measure c.s + 1) c
  let outs := (List.range specs.length).zip (specs.zip c.s.ths) |>.map fun (i, (k, _), t) => showThread c i k t
  some (joinWith ";" outs ++ s!"|ver={c.s.ver}")

def handleFind (ths : String) (withSched : Bool) : Option String := do
  let specs ← (fields ths ",").mapM parseThread
  match findDeadlock (specs.map (·.2)) with
  | none => some "none"
  | some sched => some (if withSched then "deadlock:" ++ joinWith "." (sched.map toString) else "deadlock")

def showEv : Ev → String
  | .start i => s!"s{i}"
  | .release i => s!"g{i}"

def handleEvents (ths : String) : Option String := do
  let specs ← (fields ths ",").mapM parseThread
  match findDeadlockEvents (specs.map (·.2)) with
  | none => some "none"
  | some evs => some ("deadlock:" ++ joinWith "." (evs.map showEv))

def handleRefuse (ths : String) : Option String := do
  let specs ← (fields ths ",").mapM parseThread
  match findRefusalEvents (specs.map (·.2)) with
  | none => some "none"
  | some evs => some ("refused:" ++ joinWith "." (evs.map showEv))

def handleRefuseSched (ths : String) : Option String := do
  let specs ← (fields ths ",").mapM parseThread
  match findRefusal (specs.map (·.2)) with
  | none => some "none"
  | some sched => some ("refused:" ++ joinWith "." (sched.map toString))

def handle (cmd : String) (args : List String) : Option String :=
  match cmd, args with
  | "rw", [ths, evs] => handleRun ths evs
  | "rwfind", [ths] => handleFind ths false
  | "rwsched", [ths] => handleFind ths true
  | "rwevents", [ths] => handleEvents ths
  | "rwrefuse", [ths] => handleRefuse ths
  | "rwrefsched", [ths] => handleRefuseSched ths
  | _, _ => none

end CJ.Drv.RW
