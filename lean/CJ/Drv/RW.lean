import CJ.Model.RW
import CJ.Gen.LockPrograms
import CJ.Drv.Util
/-! Driver for the RWMutex model (C13).

Threads (comma separated): `q:<path>` = a request following the named path of `Gen.bdReqPaths`,
`r:<path>` = a reload following the named path of `Gen.reloadPaths` (both tables are regenerated from
the Go source on every run, so the model always runs the code's current lock programs),
`p:<letters>` = an explicit program (r rlock, u runlock, L lock, U unlock, R readSel, W swapSel, S select).

* `rw|<threads>|<events>` — coarse run: events `s<i>` (start thread i) and `g<i>` (release thread i from
  the gate inside `Select`), then every parked thread is released; answer `<thread>;<thread>;…|ver=<n>`.
* `rwfind|<threads>` — `deadlock` / `none` (breadth-first search over all fine-grained schedules).
* `rwsched|<threads>` — the fine-grained schedule found by the search: `deadlock:<i>.<i>.…` / `none`.
* `rwevents|<threads>` — a deadlocking sequence of harness events (`s<i>`, `g<i>`), found by depth-first
  search over coarse runs: `deadlock:s0.s1.g0` / `none`; the harness replays it on the real processor. -/
namespace CJ.Drv.RW
open CJ.RW CJ.Drv

inductive Kind | req (name : String) | rel (name : String) | raw

def parseOps (s : String) : Option (List Op) :=
  s.toList.mapM fun c =>
    match c with
    | 'r' => some .rlock | 'u' => some .runlock | 'L' => some .lock | 'U' => some .unlock
    | 'R' => some .readSel | 'W' => some .swapSel | 'S' => some .select
    | _ => none

def parseThread (s : String) : Option (Kind × List Op) :=
  match s.splitOn ":" with
  | ["q", n] => (CJ.Gen.bdReqPaths.lookup n).map fun p => (.req n, p)
  | ["q", n, _] => (CJ.Gen.bdReqPaths.lookup n).map fun p => (.req n, p)   -- third field: harness variant tag
  | ["r", n] => (CJ.Gen.reloadPaths.lookup n).map fun p => (.rel n, p)
  | ["p", ops] => (parseOps ops).map fun p => (.raw, p)
  | _ => none

def parseEv (s : String) : Option Ev :=
  match s.toList with
  | 's' :: r => (String.ofList r).toNat?.map .start
  | 'g' :: r => (String.ofList r).toNat?.map .release
  | _ => none

def showVer : Option Nat → String
  | some v => toString v
  | none => "nil"

/-- the answer of a finished request: the version behind each returned address, `err` on an error exit -/
def showReq (name : String) (seen : List (Option Nat)) : String :=
  let comps := name.splitOn "+"
  if comps.any (fun c => c.startsWith "err" || c.startsWith "return") then "err"
  else
    let fams := comps.filter (fun c => c == "v4" || c == "v6")
    if fams.length == seen.length then
      joinWith "." ((fams.zip seen).map fun (f, v) => (if f == "v4" then "4=" else "6=") ++ showVer v)
    else joinWith "." ("?" :: seen.map showVer)

def showThread (c : Coarse) (i : Nat) (k : Kind) (t : Thread) : String :=
  if !c.started.contains i then "idle"
  else if t.prog.isEmpty then
    match k with
    | .req n => "done:" ++ showReq n t.seen
    | .rel _ => "done"
    | .raw => "done:" ++ joinWith "." (t.seen.map showVer)
  else if c.parked.contains i then "parked"
  else "blocked"

def handleRun (ths evs : String) : Option String := do
  let specs ← (fields ths ",").mapM parseThread
  let evs ← (fields evs ",").mapM parseEv
  let progs := specs.map (·.2)
  let c ← runEvents progs evs
  let c := drain (measure c.s + 1) c
  let outs := (List.range specs.length).zip (specs.zip c.s.ths) |>.map fun (i, (k, _), t) => showThread c i k t
  some (joinWith ";" outs ++ s!"|ver={c.s.ver}")

def handleFind (ths : String) (withSched : Bool) : Option String := do
  let specs ← (fields ths ",").mapM parseThread
  match findDeadlock (specs.map (·.2)) with
  | none => some "none"
  | some sched => some (if withSched then "deadlock:" ++ joinWith "." (sched.map toString) else "deadlock")

def showEv : Ev → String
  | .start i => s!"s{i}"
  | .release i => s!"g{i}"

def handleEvents (ths : String) : Option String := do
  let specs ← (fields ths ",").mapM parseThread
  match findDeadlockEvents (specs.map (·.2)) with
  | none => some "none"
  | some evs => some ("deadlock:" ++ joinWith "." (evs.map showEv))

def handle (cmd : String) (args : List String) : Option String :=
  match cmd, args with
  | "rw", [ths, evs] => handleRun ths evs
  | "rwfind", [ths] => handleFind ths false
  | "rwsched", [ths] => handleFind ths true
  | "rwevents", [ths] => handleEvents ths
  | _, _ => none

end CJ.Drv.RW
