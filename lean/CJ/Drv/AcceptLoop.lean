import CJ.Model.AcceptLoop
import CJ.Gen.C16AcceptLoop
import CJ.Drv.Util
/-! Driver for the life-long history of one listener (C16).

`loop|<events>` — one letter per event of the harness (zz_verif_c16_history_test.go), run on the shape of
`Listener.acceptLoop` extracted from the source (`CJ.Gen.C16AcceptLoop`): exit paths in source order
0 = handshake failed, 1 = no acceptor registered, 2 = sent to the acceptor, 3 = gave up after the timeout.

* `U` `W` `N` — a handshake that fails at once (`fast 0`) → `r` (no session either way)
* `G` `S` — a handshake that fails when its 5 s are over (`slow 0`) → `.`
* `O` — completed handshake, no channel (`fast 1`) → `.`
* `F` — two completed handshakes for an acceptor that takes nothing: `fast 2`, `slow 3` → `.`
* `C` — a cancelled Accept (no connection) → `.`
* `T` — every handshake in flight ends (`settle`) → `.`
* `P` — a matching pair (`fast 2`) → `d` when the loop takes its connection, `b` when the loop is waiting for a resource

Answer: the characters, then ` regs=0/0` (every Accept of the history has returned:
`maps_empty_when_all_returned`). -/
namespace CJ.Drv.AcceptLoop
open CJ.AcceptLoop

def sourceShape : List Res :=
  CJ.Gen.C16AcceptLoop.resources.map fun (x : String × String × String × String × Option Nat × List Bool) =>
    { cap := x.2.2.2.2.1, released := x.2.2.2.2.2 }

def events : Char → Option (List Ev)
  | 'U' | 'W' | 'N' => some [.fast 0]
  | 'G' | 'S' => some [.slow 0]
  | 'O' => some [.fast 1]
  | 'F' => some [.fast 2, .slow 3]
  | 'C' => some []
  | 'T' => some [.settle]
  | 'P' => some [.fast 2]
  | _ => none

def go (rs : List Res) : St → List Char → String → Option String
  | _, [], acc => some acc
  | s, c :: cs, acc =>
    match events c with
    | none => none
    | some evs =>
      let flags := taken rs s evs
      let s' := run rs s evs
      let ch := if c == 'P' then (if flags.all id then 'd' else 'b')
                else if c == 'U' || c == 'W' || c == 'N' then 'r' else '.'
      go rs s' cs (acc.push ch)

def handle : List String → Option String
  | [evs] => (go sourceShape (init sourceShape) evs.toList "").map (· ++ " regs=0/0")
  | _ => none

end CJ.Drv.AcceptLoop
