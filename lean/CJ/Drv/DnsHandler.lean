import CJ.Model.DnsHandler
import CJ.Drv.Util
/-! Driver for `CJ.DnsHandler` (C11): `ingress|dnsreq|<wrapper>|<latest>|<regResp: N | n>|<respMarshals>|<regErr>`.
`wrapper` = `X` (the request does not decode) or `<payload: N | P<gen: N | n>>;<srcBd>`.
Answers `err call=<-|bd|uni>` / `resp success=<0/1> outdated=<0/1> bd=<N|n> call=<bd|uni>` / `panic <what>`.
`codec|trimsuffix|<name>|<suffix>` (`Name.TrimSuffix`) → `none` / `ok <name>`. -/
namespace CJ.Drv.DnsHandler
open CJ.Codec CJ.DnsHandler CJ.Drv

def parseOptNat (s : String) : Option (Option Nat) :=
  if s == "N" then some none else (s.toNat?).map some

def parseWrapper (s : String) : Option (Option Wrapper) :=
  if s == "X" then some none
  else match s.splitOn ";" with
    | [pl, src] => do
      let p : Option Payload ←
        if pl == "N" then some none
        else if pl.startsWith "P" then (parseOptNat (pl.drop 1).toString).map fun g => some ⟨g⟩
        else none
      some (some ⟨p, ← parseBool src⟩)
    | _ => none

def showOptNat : Option Nat → String
  | none => "N"
  | some n => toString n

def showCall : Option Call → String
  | none => "-" | some .bd => "bd" | some .uni => "uni"

def handle (args : List String) : Option String :=
  match args with
  | [w, latest, resp, m, err] => do
    some (match CJ.DnsHandler.handle (← parseWrapper w) (← latest.toNat?) ⟨← parseOptNat resp, ← parseBool m, ← parseBool err⟩ with
      | .ok ⟨none, c⟩ => s!"err call={showCall c}"
      | .ok ⟨some r, c⟩ =>
        s!"resp success={showBool r.success} outdated={showBool r.outdated} bd={showOptNat r.bd} call={showCall c}"
      | .err _ => "err"
      | .panic s => "panic " ++ s
      | .hang => "hang")
  | _ => none

def parseName (s : String) : Option Name :=
  if s == "@" then some [] else (s.splitOn ".").mapM parseHex

def showName (n : Name) : String := if n.isEmpty then "@" else ".".intercalate (n.map toHex)

def trimSuffixLine (args : List String) : Option String :=
  match args with
  | [n, d] => do
    some (match trimSuffix (← parseName n) (← parseName d) with
      | none => "none"
      | some pre => "ok " ++ showName pre)
  | _ => none

end CJ.Drv.DnsHandler
