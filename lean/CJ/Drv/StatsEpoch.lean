import CJ.Model.StatsEpoch
import CJ.Drv.Util
/-! Driver for the statistics-epoch model (C05).

`statsepoch|<calls>`   calls = `,`-separated calls on one `ProxyStats`: `a` addSession · `r` removeSession ·
                       `bu<n>` / `bd<n>` addBytes · `cu<n>` / `cd<n>` addCompleted · `p` PrintAndReset · `z` Reset
  answer: the eight fields after every call, `;`-separated, each `sessions/newUp/newDown/complUp/complDown/zeroUp/zeroDown/completed`,
          then `|closed:<the same eight, summed over what the resets discarded>`
`sessions|<groups>`    groups = `;`-separated, each a `,`-separated list of session events:
                       `s<i>` start · `b<i>u<n>` / `b<i>d<n>` bytes · `f<i>u` / `f<i>d` a direction ends · `e<i>` stop · `p` / `z` epoch
  answer: after every group `<open sessions>:<the eight fields>`, `;`-separated

The reset zeroes `expectedReset` (the reviewed tree's seven epoch counters);
`CJ.Props.C05Stats.proxystats_reset_is_the_models` compares it with the source under check. -/
namespace CJ.Drv.StatsEpoch
open CJ.StatsEpoch CJ.Drv

def nat (r : List Char) : Option Nat := (String.ofList r).toNat?

def parseEv (s : String) : Option Ev :=
  match s.toList with
  | ['a'] => some .addSession
  | ['r'] => some .removeSession
  | ['p'] => some .reset
  | ['z'] => some .reset
  | 'b' :: 'u' :: r => do some (.addBytes (← nat r) true)
  | 'b' :: 'd' :: r => do some (.addBytes (← nat r) false)
  | 'c' :: 'u' :: r => do some (.addCompleted (← nat r) true)
  | 'c' :: 'd' :: r => do some (.addCompleted (← nat r) false)
  | _ => none

def showPS (p : PS) : String :=
  s!"{p.sessionsProxying}/{p.newBytesUp}/{p.newBytesDown}/{p.completeBytesUp}/{p.completeBytesDown}/{p.zeroByteTunnelsUp}/{p.zeroByteTunnelsDown}/{p.completedSessions}"

def handle (args : List String) : Option String :=
  match args with
  | [evs] => do
    let es ← (fields evs ",").mapM parseEv
    let (_, states) := es.foldl (fun (acc : PS × List String) e =>
      let p := step expectedReset acc.1 e
      (p, showPS p :: acc.2)) (({} : PS), [])
    let closed := (runClosed expectedReset ({}, {}) es).1
    some (joinWith ";" states.reverse ++ "|closed:" ++ showPS closed)
  | _ => none

/-- `<i>u<n>` / `<i>d<n>` -/
def splitDir (r : List Char) : Option (Nat × Bool × List Char) :=
  let i := r.takeWhile Char.isDigit
  match r.dropWhile Char.isDigit with
  | 'u' :: rest => do some (← nat i, true, rest)
  | 'd' :: rest => do some (← nat i, false, rest)
  | _ => none

def parseSEv (s : String) : Option SEv :=
  match s.toList with
  | ['p'] => some .epoch
  | ['z'] => some .epoch
  | 's' :: r => do some (.start (← nat r))
  | 'e' :: r => do some (.stop (← nat r))
  | 'b' :: r => do
    let (i, up, rest) ← splitDir r
    some (.bytes i (← nat rest) up)
  | 'f' :: r => do
    let (i, up, rest) ← splitDir r
    if rest.isEmpty then some (.finish i up) else none
  | _ => none

def handleSessions (args : List String) : Option String :=
  match args with
  | [groups] => do
    let gs ← (fields groups ";").mapM fun g => (fields g ",").mapM parseSEv
    let (_, states) := gs.foldl (fun (acc : W × List String) g =>
      let w := wrun expectedReset acc.1 g
      (w, s!"{w.sessions.length}:{showPS w.ps}" :: acc.2)) (({} : W), [])
    some (joinWith ";" states.reverse)
  | _ => none

end CJ.Drv.StatsEpoch
