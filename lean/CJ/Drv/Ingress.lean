import CJ.Model.Ingress
import CJ.Gen.C11Tables
import CJ.Drv.Codec
/-! Driver for the C11 models: `ingress|<op>|…`.

* `min|<data>|<id>,<id>…` — registered identifiers of the phantom
* `prefix|<data>|<window>=<view>;…` — what `getReg` finds for a 64-byte window: `other`, `noparams`, `nil`, `id:<n>`
* `obfs4|<data>|<mark>,<mark>…` — one mark per obfs4 registration of the phantom
* `register|<remoteOk>|<post>|<contentLength>|<readable>|<wrapper N/0/1>|<proc>`
* `bd|…same…|<serverConfNewer>|<proc>` with proc ∈ ok, nobody, legacy, other
* `remoteaddr|<remote>|<lb>|<values>|<tbl>` — `getRemoteAddr`: `remote` = `nil` or the hex of the string of
  `parseIP(r.RemoteAddr)`; `lb` = 0/1, that address is 127.0.0.1 or ::1; `values` = `N` (no
  `X-Forwarded-For` header at all) or the header values in order as hex joined by `,` (`-` = an empty
  value, so `-,-` = two empty values); `tbl` = `ip:<candidate hex, - for empty>=<hex of the string of the
  parsed IP | FAIL>;…` — what `net.ParseIP(strings.TrimSpace(candidate))` answers. A candidate that is not
  in the table is not defaulted: the answer is `missing-key <candidate hex>`.
  Answers `ip nil` / `ip <hex of the chosen IP string>` / `panic index out of range`.
* `reghist|<op>,<op>…` — a history of operations on a fresh registrar: `reload` or a request kind
  (`nopayload`, `sel4err`, `sel6err`, `unknowntransport`, `badparams`, `ok`: the exit of `processBdReq` it
  takes); answers `<answer>,… held=<leaked read locks>` with answers `nobody` / `error` / `response` /
  `reloaded` / `blocked`.
Answers: a verdict, `status <code>`, `panic <site>`, `hang`. -/
namespace CJ.Drv.Ingress
open CJ.Codec CJ.Ingress CJ.Drv

def showVerdict : Verdict → String
  | .tryAgain => "tryAgain" | .notTransport => "notTransport" | .found n => s!"found {n}"
  | .incorrectTransport => "incorrectTransport" | .incorrectPrefix => "incorrectPrefix"

def showOut {α} (f : α → String) : Outcome α → String
  | .ok a => f a
  | .err e => "err " ++ Codec.showErr e
  | .panic s => "panic " ++ s
  | .hang => "hang"

def parseView (s : String) : Option RegView :=
  if s == "other" then some .otherTransport
  else if s == "noparams" then some .noPrefixParams
  else if s == "nil" then some .nilPrefixParams
  else match s.splitOn ":" with
    | ["id", n] => (n.toInt?).map .prefixParams
    | _ => none

def parseViews (s : String) : Option (List (Bytes × RegView)) :=
  (fields s ";").mapM fun kv => match kv.splitOn "=" with
    | [k, v] => do some (← parseHex k, ← parseView v)
    | _ => none

def parseProc (s : String) : Option ProcResult :=
  if s == "ok" then some .ok else if s == "nobody" then some .noC2SBody
  else if s == "legacy" then some .legacyAddrError else if s == "other" then some .otherError else none

def parseWrapper (s : String) : Option (Option Bool) :=
  if s == "N" then some none else (parseBool s).map some

def parseReq (ro po cl rd wr : String) : Option HttpReq := do
  some ⟨← parseBool ro, ← parseBool po, ← cl.toInt?, ← parseBool rd, ← parseWrapper wr⟩

/-! `getRemoteAddr`: IP strings travel as hex, one character per byte -/

def bytesToString (b : Bytes) : String := String.ofList (b.map fun x => Char.ofNat x.toNat)
def stringToBytes (s : String) : Bytes := s.toList.map fun c => UInt8.ofNat c.toNat

/-- first character of the sentinel a missing table entry parses to; no decoded byte maps to it -/
def missingMark : Char := Char.ofNat 0x2205

/-- `ip:<candidate hex>=<hex of the parsed IP string | FAIL>;…` -/
def parseIpTable (s : String) : Option (List (Bytes × Option String)) :=
  (fields s ";").mapM fun kv => match kv.splitOn "=" with
    | [k, v] => match k.splitOn ":" with
      | ["ip", c] => do
        let cand ← parseHex c
        if v == "FAIL" then some (cand, none) else some (cand, some (bytesToString (← parseHex v)))
      | _ => none
    | _ => none

/-- the parse function of a table; a candidate without entry gives the sentinel -/
def tableParse (t : List (Bytes × Option String)) (cand : Bytes) : Option String :=
  match t.lookup cand with
  | some r => r
  | none => some (String.ofList (missingMark :: (toHex cand).toList))

/-- `N` = no header at all, otherwise the values as hex joined by `,` (`-` = an empty value) -/
def parseValues (s : String) : Option (List Bytes) :=
  if s == "N" then some [] else (s.splitOn ",").mapM parseHex

def parseRemote (s : String) : Option (Option String) :=
  if s == "nil" then some none else (parseHex s).map fun b => some (bytesToString b)

def showIp : Option String → String
  | none => "ip nil"
  | some s =>
    match s.toList with
    | c :: rest => if c == missingMark then "missing-key " ++ String.ofList rest else "ip " ++ toHex (stringToBytes s)
    | [] => "ip -"

/-- the request kinds of the registrar histories: which exit of `processBdReq` they take -/
def histReq (k : String) : Option BdReq :=
  let ok : BdReq := ⟨true, true, true, true, some [10, 1, 2, 3], some [1], true, true, true, true⟩
  if k == "nopayload" then some { ok with hasPayload := false }
  else if k == "sel4err" then some { ok with select4 := none }
  else if k == "sel6err" then some { ok with v4 := false, select6 := none }
  else if k == "unknowntransport" then some { ok with transportKnown := false }
  else if k == "badparams" then some { ok with paramsOk := false }
  else if k == "ok" then some ok
  else none

def showRegAnswer : RegAnswer → String
  | .answered (.ok .response) => "response"
  | .answered (.ok .errNoC2SBody) => "nobody"
  | .answered (.ok .errOther) => "error"
  | .answered (.err _) => "error"
  | .answered (.panic _) => "panic-or-hang"
  | .answered .hang => "panic-or-hang"
  | .reloaded => "reloaded"
  | .blocked => "blocked"

def handle (args : List String) : Option String :=
  match args with
  | ["reghist", ops] => do
    let l ← (fields ops ",").mapM fun o => if o == "reload" then some RegOp.reload else (histReq o).map RegOp.request
    let (s, as) := regRun false {} l
    some (",".intercalate (as.map showRegAnswer) ++ s!" held={s.readers}")
  | ["min", data, ids] => do
    let ids ← (fields ids ",").mapM parseHex
    some (showOut showVerdict (wrapMin (← parseHex data) (fun id => ids.contains id)))
  | ["prefix", data, views] => do
    let vs ← parseViews views
    some (showOut showVerdict (wrapPrefix CJ.Gen.C11.prefixTable (← parseHex data) (fun w => vs.lookup w)))
  | ["obfs4", data, marks] => do
    let ms ← (fields marks ",").mapM parseHex
    some (showOut showVerdict (wrapObfs4 CJ.Gen.C11.obfs4Consts (← parseHex data) (ms.map fun m => fun x => x == m)))
  | ["register", ro, po, cl, rd, wr, proc] => do
    some (showOut (fun c => s!"status {c}") (register (← parseReq ro po cl rd wr) (← parseProc proc)))
  | ["bd", ro, po, cl, rd, wr, newer, proc] => do
    some (showOut (fun c => s!"status {c}") (registerBidirectional (← parseReq ro po cl rd wr) (← parseBool newer) (← parseProc proc)))
  | ["remoteaddr", remote, lb, values, tbl] => do
    let t ← parseIpTable tbl
    some (showOut showIp (getRemoteAddr (← parseRemote remote) (← parseBool lb) (← parseValues values) (tableParse t)))
  | _ => none

end CJ.Drv.Ingress
