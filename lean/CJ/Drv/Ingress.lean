import CJ.Model.Ingress
import CJ.Gen.C11Tables
import CJ.Drv.Codec
/-! Driver for the C11 models: `ingress|<op>|…`.

* `min|<data>|<id>,<id>…` — registered identifiers of the phantom
* `prefix|<data>|<window>=<view>;…` — what `getReg` finds for a 64-byte window: `other`, `noparams`, `nil`, `id:<n>`
* `obfs4|<data>|<mark>,<mark>…` — one mark per obfs4 registration of the phantom
* `register|<remoteOk>|<post>|<contentLength>|<readable>|<wrapper N/0/1>|<proc>`
* `bd|…same…|<serverConfNewer>|<proc>` with proc ∈ ok, nobody, legacy, other
Answers: a verdict, `status <code>`, `panic <site>`, `hang`. -/
namespace CJ.Drv.Ingress
open CJ.Codec CJ.Ingress CJ.Drv

def showVerdict : Verdict → String
  | .tryAgain => "tryAgain" | .notTransport => "notTransport" | .found n => s!"found {n}"
  | .incorrectTransport => "incorrectTransport" | .incorrectPrefix => "incorrectPrefix"

def showOut {α} (f : α → String) : Outcome α → String
  | .ok a => f a
  | .err e => "err " ++ Codec.showErr e
  | .panic s => "panic " ++ s
  | .hang => "hang"

def parseView (s : String) : Option RegView :=
  if s == "other" then some .otherTransport
  else if s == "noparams" then some .noPrefixParams
  else if s == "nil" then some .nilPrefixParams
  else match s.splitOn ":" with
    | ["id", n] => (n.toInt?).map .prefixParams
    | _ => none

def parseViews (s : String) : Option (List (Bytes × RegView)) :=
  (fields s ";").mapM fun kv => match kv.splitOn "=" with
    | [k, v] => do some (← parseHex k, ← parseView v)
    | _ => none

def parseProc (s : String) : Option ProcResult :=
  if s == "ok" then some .ok else if s == "nobody" then some .noC2SBody
  else if s == "legacy" then some .legacyAddrError else if s == "other" then some .otherError else none

def parseWrapper (s : String) : Option (Option Bool) :=
  if s == "N" then some none else (parseBool s).map some

def parseReq (ro po cl rd wr : String) : Option HttpReq := do
  some ⟨← parseBool ro, ← parseBool po, ← cl.toInt?, ← parseBool rd, ← parseWrapper wr⟩

def handle (args : List String) : Option String :=
  match args with
  | ["min", data, ids] => do
    let ids ← (fields ids ",").mapM parseHex
    some (showOut showVerdict (wrapMin (← parseHex data) (fun id => ids.contains id)))
  | ["prefix", data, views] => do
    let vs ← parseViews views
    some (showOut showVerdict (wrapPrefix CJ.Gen.C11.prefixTable (← parseHex data) (fun w => vs.lookup w)))
  | ["obfs4", data, marks] => do
    let ms ← (fields marks ",").mapM parseHex
    some (showOut showVerdict (wrapObfs4 CJ.Gen.C11.obfs4Consts (← parseHex data) (ms.map fun m => fun x => x == m)))
  | ["register", ro, po, cl, rd, wr, proc] => do
    some (showOut (fun c => s!"status {c}") (register (← parseReq ro po cl rd wr) (← parseProc proc)))
  | ["bd", ro, po, cl, rd, wr, newer, proc] => do
    some (showOut (fun c => s!"status {c}") (registerBidirectional (← parseReq ro po cl rd wr) (← parseBool newer) (← parseProc proc)))
  | _ => none

end CJ.Drv.Ingress
