/-! Shared stdin/stdout loop of the per-property line-protocol drivers. -/
namespace CJ.Drv

partial def loopLines (h : IO.FS.Stream) (out : IO.FS.Stream) (dispatch : String → String) : IO Unit := do
  let line ← h.getLine
  if line.isEmpty then return ()
  let l := (line.dropEndWhile (· == (Char.ofNat 10))).toString
  out.putStrLn (dispatch l)
  loopLines h out dispatch

/-- one case per input line, `model|field|field…`; one canonical answer per line; unparsable input is
answered `bad-op`, never defaulted. -/
def runDriver (dispatch : List String → Option String) : IO Unit := do
  let out ← IO.getStdout
  loopLines (← IO.getStdin) out (fun l => (dispatch (l.splitOn "|")).getD "bad-op")
  out.flush

end CJ.Drv
