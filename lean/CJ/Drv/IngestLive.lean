import CJ.Model.IngestLive
import CJ.Drv.Ingest
import CJ.Drv.Liveness
/-! Driver for ingest with the liveness tester inside (C07, line `c07r`).

`c07r|<durLive>,<capLive>,<durNonLive>,<capNonLive>|<cfg>|<now>;<truth>;<wire>|…`
* the liveness-cache configuration as for C18's `cache` line (`-` empty, `E` ParseDuration error, or nanoseconds);
* cfg, wire as for `c07`; the `live` field among the wire's oracles is NOT what the model decides on: the model asks its
  own tester (C18's model) and feeds it `truth` — what a probe of the message's phantom would return at that instant
  (`0`/`1`, the harness's ground truth about its loopback phantoms);
* now: the arrival time of the message in nanoseconds.
Answer per message: `<asked>;<answer as for c07>` with asked = `-` (the tester was not asked) or, per question, `c0`/`c1`
(answered from the cache) / `p0`/`p1` (probe sent, its boolean). -/
namespace CJ.Drv.IngestLive
open CJ.Ingest CJ.IngestLive CJ.Liveness CJ.Drv

def parseLCfg (s : String) : Option Config :=
  match s.splitOn "," with
  | [dl, cl, dn, cn] => do
    some { durLive := ← CJ.Drv.Liveness.parseDur dl, capLive := ← cl.toInt?, durNonLive := ← CJ.Drv.Liveness.parseDur dn,
           capNonLive := ← cn.toInt? }
  | _ => none

def parseTMsg (s : String) : Option TMsg :=
  match s.splitOn ";" with
  | [now, truth, wire] => do
    let b ← parseBool truth
    some { now := ← now.toInt?, world := fun _ => { live := b, err := if b then .liveHost else .notLive },
           wire := ← CJ.Drv.Ingest.parseWire wire }
  | _ => none

def showAsked (asked : List (XOp × XOut)) : String :=
  if asked.isEmpty then "-" else
  joinWith "," (asked.map fun q => match q.2 with
    | .cached v => "c" ++ showBool v
    | .probed r => "p" ++ showBool r.live
    | .cleared => "clr")

def answerL (c : Cfg) (x : LSt) (m : TMsg) : LSt × String :=
  let res := ingestWireL c x m
  match m.wire with
  | .garbage => (res.st, showAsked res.asked ++ ";-,-;err;;-,-")
  | .msg mm o =>
    let b4 := buildFam c mm o .v4
    let b6 := buildFam c mm o .v6
    let p := match parse c m.wire with
      | none => "err"
      | some regs => s!"n={regs.length}"
    (res.st, s!"{showAsked res.asked};{CJ.Drv.Ingest.showBuild b4},{CJ.Drv.Ingest.showBuild b6};{p};{joinWith "," (res.evs.map CJ.Drv.Ingest.showEv)};{CJ.Drv.Ingest.showState res.st.reg b4},{CJ.Drv.Ingest.showState res.st.reg b6}")

def handle (args : List String) : Option String :=
  match args with
  | lcfg :: cfg :: msgs => do
    let lc ← parseLCfg lcfg
    -- a configuration `liveness.New` refuses: the station would not start
    if (new lc).2.isSome then none else
    let c ← CJ.Drv.Ingest.parseCfg cfg
    let ms ← msgs.mapM parseTMsg
    let (_, outs) := ms.foldl (fun (acc : LSt × List String) m =>
      let (x', o) := answerL c acc.1 m
      (x', o :: acc.2)) (LSt.init lc, [])
    some (joinWith "|" outs.reverse)
  | _ => none

end CJ.Drv.IngestLive
