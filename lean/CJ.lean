-- Root of the CJ library: `lake build CJ` builds every module listed here; ./check --setup builds the
-- modules named by the plans in /verif/props as well.
import CJ.AuditTool
import CJ.Drv.Loop
import CJ.Drv.Util
import CJ.Props.C08
