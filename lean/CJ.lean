import CJ.Model.Registry
import CJ.Lemmas.Registry
