import CJ.Drv.Loop
import CJ.Drv.Config
import CJ.Drv.ReloadSteps
import CJ.Drv.BlocklistText
import CJ.Drv.PatternList
/-! Driver for C19: configuration loading, reload, statistics printer. -/
open CJ.Drv

def main : IO Unit := runDriver fun
  | "load" :: args => Config.handleLoad args
  | "reload" :: args => Config.handleReload args
  | "reload2" :: args => Config.handleReload2 args
  | "stats" :: args => Config.handleStats args
  | "ingestsrc" :: args => Config.handleIngestSrc args
  | "onreload" :: args => ReloadSteps.handle args
  | "loadtext" :: args => BlocklistText.handle args
  | "pattern" :: args => PatternList.handle args
  | _ => none
