import CJ.Drv.Registry
/-! Line-protocol driver: one case per input line, `model|field|field…`; one canonical answer per
line.  Unparsable input is answered `bad-op`, never defaulted. -/
open CJ.Drv

def dispatch (line : String) : String :=
  match line.splitOn "|" with
  | "registry" :: args => (Registry.handle args).getD "bad-op"
  | _ => "bad-op"

partial def loop (h : IO.FS.Stream) (out : IO.FS.Stream) : IO Unit := do
  let line ← h.getLine
  if line.isEmpty then return ()
  let l := (line.dropEndWhile (· == (Char.ofNat 10))).toString
  out.putStrLn (dispatch l)
  loop h out

def main : IO Unit := do
  let out ← IO.getStdout
  loop (← IO.getStdin) out
  out.flush
