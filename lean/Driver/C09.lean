import CJ.Drv.Loop
import CJ.Drv.Registry
import CJ.Drv.RegistryConc
import CJ.Drv.PipelineMsg
/-! Driver for C09: the sequential registry model and its concurrent extension. -/
open CJ.Drv

def main : IO Unit := runDriver fun
  | "registry" :: args => Registry.handle args
  | "conc" :: args => RegistryConc.handle args
  | "pipe" :: args => PipelineMsg.handle args
  | _ => none
