import CJ.Drv.Loop
import CJ.Drv.Registry
import CJ.Drv.RegistryConc
/-! Driver for C09: the sequential registry model and its concurrent extension. -/
open CJ.Drv

def main : IO Unit := runDriver fun
  | "registry" :: args => Registry.handle args
  | "conc" :: args => RegistryConc.handle args
  | _ => none
