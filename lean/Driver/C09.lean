import CJ.Drv.Loop
import CJ.Drv.Registry
import CJ.Drv.RegistryConc
import CJ.Drv.PipelineMsg
import CJ.Drv.ZmqMerge
/-! Driver for C09: the sequential registry model and its concurrent extension. -/
open CJ.Drv

def main : IO Unit := runDriver fun
  | "registry" :: args => Registry.handle args
  | "conc" :: args => RegistryConc.handle args
  | "pipe" :: args => PipelineMsg.handle args
  | "zmqmerge" :: args => ZmqMerge.handle ("zmqmerge" :: args)
  | "zmqrun" :: args => ZmqMerge.handle ("zmqrun" :: args)
  | _ => none
