import CJ.Drv.Loop
import CJ.Drv.AtomicStore
import CJ.Drv.AssetsMem
import CJ.Drv.AssetsConc
/-! Driver for C20: the atomic-store model (system-call level) and the in-memory model of the asset store (call level). -/
open CJ.Drv

def main : IO Unit := runDriver fun
  | "store" :: args => AtomicStore.handle args
  | "crash" :: args => AtomicStore.handleCrash args
  | "mem" :: args => AssetsMem.handle args
  | "conc" :: args => AssetsConc.handle args
  | _ => none
