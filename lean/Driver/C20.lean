import CJ.Drv.Loop
import CJ.Drv.AtomicStore
/-! Driver for C20: the atomic-store model. -/
open CJ.Drv

def main : IO Unit := runDriver fun
  | "store" :: args => AtomicStore.handle args
  | "crash" :: args => AtomicStore.handleCrash args
  | _ => none
