import CJ.Drv.Loop
import CJ.Drv.Derive
/-! Driver for C01: the whole derivation (keys, phantom, port, identifiers) on both sides, and the
Lean SHA-256 / HMAC / HKDF on their own. -/
open CJ.Drv

def main : IO Unit := runDriver fun
  | "derive" :: args => Derive.handle args
  | "sha256" :: args => Derive.handleSha args
  | "hmac" :: args => Derive.handleHmac args
  | "hkdf" :: args => Derive.handleHkdf args
  | "dtlshello" :: args => Derive.handleDtlsHello args
  | "dtlscred" :: args => Derive.handleDtlsCred args
  | _ => none
