import CJ.Drv.Loop
import CJ.Drv.Derive
import CJ.Drv.ClientSession
import CJ.Drv.Cidr
import CJ.Drv.Generations
/-! Driver for C01: the whole derivation (keys, phantom, port, identifiers) on both sides, and the
Lean SHA-256 / HMAC / HKDF on their own; the client transports as state machines (`chist`) and the
station's ingest of a wrapper that carries a registration response (`ingest`); `net.ParseCIDR` on a
configured subnet string (`cidr`, `cidrgroup`); the station's table of generations (`gens`, `gensload`). -/
open CJ.Drv

def main : IO Unit := runDriver fun
  | "derive" :: args => Derive.handle args
  | "sha256" :: args => Derive.handleSha args
  | "hmac" :: args => Derive.handleHmac args
  | "hkdf" :: args => Derive.handleHkdf args
  | "dtlshello" :: args => Derive.handleDtlsHello args
  | "dtlscred" :: args => Derive.handleDtlsCred args
  | "chist" :: args => ClientSession.handleHist args
  | "ingest" :: args => ClientSession.handleIngest args
  | "cidr" :: args => Cidr.handle args
  | "cidrgroup" :: args => Cidr.handleGroup args
  | "gens" :: args => Generations.handle args
  | "gensload" :: args => Generations.handleLoad args
  | _ => none
