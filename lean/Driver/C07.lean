import CJ.Drv.Loop
import CJ.Drv.Ingest
/-! Driver for C07: the registration ingest model. -/
open CJ.Drv

def main : IO Unit := runDriver fun
  | "c07" :: args => Ingest.handle args
  | _ => none
