import CJ.Drv.Loop
import CJ.Drv.Ingest
import CJ.Drv.IngestStore
import CJ.Drv.IngestText
import CJ.Drv.IngestLive
/-! Driver for C07: the registration ingest model (`c07`: one session, flags and events; `c07s`: sequences of
messages with the stored registration objects). -/
open CJ.Drv

def main : IO Unit := runDriver fun
  | "c07" :: args => Ingest.handle args
  | "c07s" :: args => IngestStore.handle args
  | "c07b" :: args => IngestText.handle args
  | "c07r" :: args => IngestLive.handle args
  | _ => none
