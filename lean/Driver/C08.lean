import CJ.Drv.Loop
import CJ.Drv.Registry
/-! Driver for C08: the registry model. -/
open CJ.Drv

def main : IO Unit := runDriver fun
  | "registry" :: args => Registry.handle args
  | _ => none
