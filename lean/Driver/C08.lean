import CJ.Drv.Loop
import CJ.Drv.Registry
import CJ.Drv.RegistryX
import CJ.Drv.RegistryIndex
/-! Driver for C08: the registry model, its extended histories, and the string-indexed registry. -/
open CJ.Drv

def main : IO Unit := runDriver fun
  | "registry" :: args => Registry.handle args
  | "registryx" :: args => RegistryX.handle args
  | "regidx" :: args => RegistryIndex.handle args
  | _ => none
