import CJ.Drv.Loop
import CJ.Drv.Registry
import CJ.Drv.RegistryX
/-! Driver for C08: the registry model and its extended histories. -/
open CJ.Drv

def main : IO Unit := runDriver fun
  | "registry" :: args => Registry.handle args
  | "registryx" :: args => RegistryX.handle args
  | _ => none
