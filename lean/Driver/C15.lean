import CJ.Drv.Loop
import CJ.Drv.Codec
import CJ.Drv.Alive
/-! Driver for C15: the codec models. -/
open CJ.Drv

def main : IO Unit := runDriver fun
  | "codec" :: args => Codec.handle args
  | "alive" :: args => Alive.handle args
  | _ => none
