import CJ.Drv.Loop
import CJ.Drv.Codec
import CJ.Drv.Alive
import CJ.Drv.Base32
/-! Driver for C15: the codec models. -/
open CJ.Drv

def main : IO Unit := runDriver fun
  | "codec" :: args => Codec.handle args
  | "alive" :: args => Alive.handle args
  | "b32" :: args => Base32.handle args
  | _ => none
