import CJ.Drv.Loop
/-! Driver for C15 (stub until the models are written). -/
open CJ.Drv

def main : IO Unit := runDriver fun
  | _ => none
