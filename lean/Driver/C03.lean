import CJ.Drv.Loop
import CJ.Drv.ConnHandler
import CJ.Drv.ConnStats
/-! Driver for C03: the connection-handler model (`conn|…` lines) and its statistics transitions (`connstats|…`). -/
open CJ.Drv

def main : IO Unit := runDriver fun
  | "conn" :: args => ConnHandler.handle args
  | "connstats" :: args => ConnStats.handle args
  | _ => none
