import CJ.Drv.Loop
import CJ.Drv.ConnHandler
import CJ.Drv.ConnStats
import CJ.Drv.ReloadEnv
import CJ.Drv.ConnTimed
/-! Driver for C03: the connection-handler model (`conn|…` lines) and its statistics transitions (`connstats|…`),
the reload histories before a connection (`reloadenv|…`), the handler on the clock (`conntime|…`). -/
open CJ.Drv

def main : IO Unit := runDriver fun
  | "conn" :: args => ConnHandler.handle args
  | "connstats" :: args => ConnStats.handle args
  | "reloadenv" :: args => ReloadEnv.handle args
  | "conntime" :: args => ConnTimed.handle args
  | _ => none
