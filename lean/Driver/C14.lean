import CJ.Drv.Loop
import CJ.Drv.Phantom
import CJ.Drv.PhantomPort
import CJ.Drv.PhantomLoad
import CJ.Drv.PhantomFlow
/-! Driver for C14: phantom selection (all selector generations, station / client / frozen clients),
`crypto/rand.Int` and `binary.Varint` on their own; the station's destination-port decision; the subnet
file's loop in front of the selection. -/
open CJ.Drv

def main : IO Unit := runDriver fun
  | "phantom" :: args => Phantom.handle args
  | "offset" :: args => Phantom.handleOffset args
  | "randint" :: args => Phantom.handleRandInt args
  | "varint" :: args => Phantom.handleVarint args
  | "dstport" :: args => PhantomPort.handle args
  | "load" :: args => PhantomLoad.handle args
  | "flow" :: args => PhantomFlow.handle args
  | _ => none
