import CJ.Drv.Loop
import CJ.Drv.Phantom
/-! Driver for C14: phantom selection (all selector generations, station / client / frozen clients),
`crypto/rand.Int` and `binary.Varint` on their own. -/
open CJ.Drv

def main : IO Unit := runDriver fun
  | "phantom" :: args => Phantom.handle args
  | "offset" :: args => Phantom.handleOffset args
  | "randint" :: args => Phantom.handleRandInt args
  | "varint" :: args => Phantom.handleVarint args
  | _ => none
