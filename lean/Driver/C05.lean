import CJ.Drv.Loop
import CJ.Drv.HalfPipe
import CJ.Drv.RelayClock
import CJ.Drv.StatsEpoch
import CJ.Drv.ProxyHeader
import CJ.Drv.ProxyRelay
import CJ.Drv.ByteCounters
/-! Driver for C05: the relay model (`halfPipe`, `Proxy`), the relay's deadlines on a virtual clock, and the
proxy statistics across epochs. -/
open CJ.Drv

def main : IO Unit := runDriver fun
  | "halfpipe" :: args => HalfPipe.handle args
  | "proxy" :: args => ProxyRelay.handle args
  | "relayclock" :: args => RelayClock.handle args
  | "statsepoch" :: args => StatsEpoch.handle args
  | "sessions" :: args => StatsEpoch.handleSessions args
  | "bytectr" :: args => ByteCounters.handle args
  | "proxyhdr" :: args => ProxyHeader.handle args
  | _ => none
