import CJ.Drv.Loop
import CJ.Drv.HalfPipe
import CJ.Drv.RelayClock
/-! Driver for C05: the relay model (`halfPipe`, `Proxy`) and the relay's deadlines on a virtual clock. -/
open CJ.Drv

def main : IO Unit := runDriver fun
  | "halfpipe" :: args => HalfPipe.handle args
  | "proxy" :: args => HalfPipe.handleProxy args
  | "relayclock" :: args => RelayClock.handle args
  | _ => none
