import CJ.Drv.Loop
import CJ.Drv.HalfPipe
/-! Driver for C05: the relay model (`halfPipe`, `Proxy`). -/
open CJ.Drv

def main : IO Unit := runDriver fun
  | "halfpipe" :: args => HalfPipe.handle args
  | "proxy" :: args => HalfPipe.handleProxy args
  | _ => none
