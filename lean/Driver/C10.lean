import CJ.Drv.Loop
import CJ.Drv.Detector
/-! Driver for C10: the station → detector channel model. -/
open CJ.Drv

def main : IO Unit := runDriver fun
  | "c10" :: args => Detector.handle args
  | _ => none
