import CJ.Drv.Loop
import CJ.Drv.Detector
import CJ.Drv.Announce
import CJ.Drv.PacketPath
import CJ.Drv.C10Transport
/-! Driver for C10: the station → detector channel model (`c10|`: messages, sweeps and lookups on one
detector) the registry ∥ detector history model (`c10h|`) and the station scenarios around it
(`c10s|`: ingest pipeline, shutdown sequence, availability of the channel) and the detector's packet
path (`c10p|`: which packets are forwarded, session extension, watched flows). -/
open CJ.Drv

def main : IO Unit := runDriver fun
  | "c10" :: args => Detector.handle args
  | "c10h" :: args => Announce.handle args
  | "c10s" :: args => Announce.handleStation args
  | "c10p" :: args => PacketPath.handle args
  | "c10t" :: args => C10Transport.handle args
  | _ => none
