import CJ.Drv.Loop
import CJ.Drv.ConnHandler
/-! Driver for C04: the connection-handler model (`conn|…` lines). -/
open CJ.Drv

def main : IO Unit := runDriver fun
  | "conn" :: args => ConnHandler.handle args
  | _ => none
