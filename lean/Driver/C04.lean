import CJ.Drv.Loop
import CJ.Drv.ConnHandler
import CJ.Drv.RelayClock
/-! Driver for C04: the connection-handler model (`conn|…` lines) and the relay's deadlines on a
virtual clock (`relayclock|…` lines). -/
open CJ.Drv

def main : IO Unit := runDriver fun
  | "conn" :: args => ConnHandler.handle args
  | "relayclock" :: args => RelayClock.handle args
  | _ => none
