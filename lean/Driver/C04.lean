import CJ.Drv.Loop
import CJ.Drv.ConnHandler
import CJ.Drv.RelayClock
import CJ.Drv.ConnStation
/-! Driver for C04: the connection-handler model (`conn|…` lines) and the relay's deadlines on a
virtual clock (`relayclock|…` lines), and the station across connections (`connseq|…` lines). -/
open CJ.Drv

def main : IO Unit := runDriver fun
  | "conn" :: args => ConnHandler.handle args
  | "relayclock" :: args => RelayClock.handle args
  | "connseq" :: args => ConnStation.handle args
  | _ => none
