import CJ.Drv.Loop
import CJ.Drv.LogTaint
import CJ.Drv.Logger
/-! Driver for C17: error texts, `generalizeErr`, the flow description. -/
open CJ.Drv

def main : IO Unit := runDriver fun
  | "gen" :: args => LogTaint.handleGen args
  | "text" :: args => LogTaint.handleText args
  | "flow" :: args => LogTaint.handleFlow args
  | "logger" :: args => Logger.handle args
  | _ => none
