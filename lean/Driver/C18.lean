import CJ.Drv.Loop
import CJ.Drv.Liveness
/-! Driver for C18: the liveness-cache model. -/
open CJ.Drv

def main : IO Unit := runDriver fun
  | "cache" :: args => Liveness.handle args
  | _ => none
