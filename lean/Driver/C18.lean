import CJ.Drv.Loop
import CJ.Drv.Liveness
import CJ.Drv.LivenessText
/-! Driver for C18: the liveness-cache model; `dur|` / `cachet|` = the configured lifetimes as text. -/
open CJ.Drv

def main : IO Unit := runDriver fun
  | "cache" :: args => Liveness.handle args
  | "dur" :: args => LivenessText.handleDur args
  | "cachet" :: args => LivenessText.handleCache args
  | _ => none
