import CJ.Drv.Loop
import CJ.Drv.Registry
import CJ.Drv.RegistryX
import CJ.Drv.Wrap
/-! Driver for C02: registry histories followed by offers to the classifier models. -/
open CJ.Drv

def main : IO Unit := runDriver fun
  | "registry" :: args => Registry.handle args
  | "registryx" :: args => RegistryX.handle args
  | "regwrap" :: args => Wrap.handle args
  | _ => none
