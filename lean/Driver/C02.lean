import CJ.Drv.Loop
import CJ.Drv.Registry
import CJ.Drv.RegistryX
import CJ.Drv.Wrap
import CJ.Drv.WrapStream
/-! Driver for C02: registry histories followed by offers to the classifier models. -/
open CJ.Drv

def main : IO Unit := runDriver fun
  | "registry" :: args => Registry.handle args
  | "registryx" :: args => RegistryX.handle args
  | "regwrap" :: args => Wrap.handle args
  | "prepend" :: args => WrapStream.handle "prepend" args
  | "wrapread" :: args => WrapStream.handle "wrapread" args
  | "obfs4mark" :: args => WrapStream.handle "obfs4mark" args
  | _ => none
