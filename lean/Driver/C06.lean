import CJ.Drv.Loop
import CJ.Drv.Covert
/-! Driver for C06: the covert-admission model. -/
open CJ.Drv

def main : IO Unit := runDriver fun
  | "covert" :: args => Covert.handle args
  | "csched" :: args => Covert.handleSched args
  | "creload" :: args => Covert.handleReload args
  | "cdialback" :: args => Covert.handleDialback args
  | _ => none
