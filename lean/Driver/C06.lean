import CJ.Drv.Loop
import CJ.Drv.Covert
import CJ.Drv.NetAddr
/-! Driver for C06: the covert-admission model. -/
open CJ.Drv

def main : IO Unit := runDriver fun
  | "covert" :: args => Covert.handle args
  | "csched" :: args => Covert.handleSched args
  | "creload" :: args => Covert.handleReload args
  | "cdialback" :: args => Covert.handleDialback args
  | "netaddr" :: args => NetAddr.handle args
  | "cadmit" :: args => NetAddr.handleAdmit args
  | _ => none
