import CJ.Drv.Loop
import CJ.Drv.Covert
import CJ.Drv.NetAddr
import CJ.Drv.NetAddrBytes
/-! Driver for C06: the covert-admission model. -/
open CJ.Drv

def main : IO Unit := runDriver fun
  | "covert" :: args => Covert.handle args
  | "csched" :: args => Covert.handleSched args
  | "creload" :: args => Covert.handleReload args
  | "cdialback" :: args => Covert.handleDialback args
  | "netaddr" :: args => NetAddr.handle args
  | "cadmit" :: args => NetAddr.handleAdmit args
  | "netaddrb" :: args => NetAddrBytes.handle args
  | "cadmitb" :: args => NetAddrBytes.handleAdmit args
  | _ => none
