import CJ.Drv.Loop
import CJ.Drv.Codec
import CJ.Drv.Ingress
import CJ.Drv.IngressMsg
import CJ.Drv.DnsHandler
/-! Driver for C11: the byte-level parsers (codec model) and the entry-point models. -/
open CJ.Drv

def main : IO Unit := runDriver fun
  | "codec" :: "trimsuffix" :: args => DnsHandler.trimSuffixLine args
  | "codec" :: args => Codec.handle args
  | "ingress" :: "dnsreq" :: args => DnsHandler.handle args
  | "ingress" :: "c2sw" :: args => IngressMsg.handle ("c2sw" :: args)
  | "ingress" :: "bdreq" :: args => IngressMsg.handle ("bdreq" :: args)
  | "ingress" :: "zmq" :: args => IngressMsg.handle ("zmq" :: args)
  | "ingress" :: args => Ingress.handle args
  | _ => none
