import CJ.Drv.Loop
import CJ.Drv.Codec
import CJ.Drv.Ingress
/-! Driver for C11: the byte-level parsers (codec model) and the entry-point models. -/
open CJ.Drv

def main : IO Unit := runDriver fun
  | "codec" :: args => Codec.handle args
  | "ingress" :: args => Ingress.handle args
  | _ => none
