import CJ.Drv.Loop
import CJ.Drv.Registrar
import CJ.Drv.PrefixFile
/-! Driver for C12: the registrar model. -/
open CJ.Drv

def main : IO Unit := runDriver fun
  | "registrar" :: args => Registrar.handle args
  | "station" :: args => Registrar.handleStation args
  | "uni" :: args => Registrar.handleUni args
  | "choose" :: args => Registrar.handleChoose args
  | "cidr" :: args => OverrideCidr.handle args
  | "pfxov" :: args => PrefixFile.handle args
  | _ => none
