import CJ.Drv.Loop
import CJ.Drv.Registrar
/-! Driver for C12: the registrar model. -/
open CJ.Drv

def main : IO Unit := runDriver fun
  | "registrar" :: args => Registrar.handle args
  | "station" :: args => Registrar.handleStation args
  | "uni" :: args => Registrar.handleUni args
  | "choose" :: args => Registrar.handleChoose args
  | "cidr" :: args => OverrideCidr.handle args
  | _ => none
