import CJ.Drv.Loop
import CJ.Drv.RW
import CJ.Drv.ReloadPath
import CJ.Drv.BdReq
import CJ.Drv.DnsReq
/-! Driver for C13: the RWMutex model over the regenerated lock programs; the reload goroutine's rounds. -/
open CJ.Drv

def main : IO Unit := runDriver fun
  | "rw" :: args => RW.handle "rw" args
  | "rwfind" :: args => RW.handle "rwfind" args
  | "rwsched" :: args => RW.handle "rwsched" args
  | "rwevents" :: args => RW.handle "rwevents" args
  | "rwrefuse" :: args => RW.handle "rwrefuse" args
  | "rwrefsched" :: args => RW.handle "rwrefsched" args
  | "gate" :: args => ReloadPath.handle args
  | "bdreq" :: args => BdReq.handle args
  | "dnsreq" :: args => DnsReq.handle args
  | "raddr" :: args => DnsReq.handleAddr args
  | _ => none
