import CJ.Drv.Loop
import CJ.Drv.SctpConn
import CJ.Drv.DtlsListener
import CJ.Drv.AcceptLoop
/-! Driver for C16: listener, SCTPConn, heartbeat filter, flow control, watchdog. -/
open CJ.Drv

def main : IO Unit := runDriver fun
  | "dtls" :: args => DtlsListener.handle args
  | "sctp" :: args => SctpConn.handleSctp args
  | "hbsctp" :: args => SctpConn.handleHb args
  | "flow" :: args => SctpConn.handleFlow args
  | "wd" :: args => SctpConn.handleWd args
  | "loop" :: args => AcceptLoop.handle args
  | _ => none
