#!/usr/bin/env python3
"""Regenerates /verif/MANIFEST.json from props/*.json (plans) — keeps the manifest valid at all times."""
import json, os, subprocess
V = os.path.dirname(os.path.dirname(os.path.abspath(__file__)))
import re
ids = sorted(f[:-5] for f in os.listdir(os.path.join(V, "props")) if re.match(r"C\d+\.json$", f))
all_ids = [json.loads(l)["id"] for l in open(os.path.join(V, "properties.jsonl"))]
checks = []
for pid in ids:
    p = json.load(open(os.path.join(V, "props", pid + ".json")))
    if p.get("not_claimed"):
        continue
    checks.append({
        "property_id": pid,
        "quick_cmd": "./check %s --tier quick" % pid,
        "thorough_cmd": "./check %s --tier thorough" % pid,
        "evidence_file": "/verif/evidence/%s.json" % pid,
        "replay_cmd_template": "./check %s --replay {path}" % pid,
        "engine": "lean4-proof+correspondence",
        "level_claimed": {
            "category": "proof",
            "text": p.get("level_text", "Lean 4 theorems about an executable model, tied to the code by a differential correspondence harness and property oracles on the real code."),
            "design_ref": p.get("design_ref", "DESIGN.md §5 " + pid),
        },
        "level_note": p.get("level_note", "Trusted: Lean kernel; axioms propext/Classical.choice/Quot.sound; the hand-written model (validated by correspondence, not verified); harness, generators and canonicalisation. " + "; ".join(p.get("assumptions", []))),
        "technique": p.get("technique", "machine-checked proof in Lean 4 over a model + model/implementation correspondence check"),
    })
na_path = os.path.join(V, "props", "not_applicable.json")
na = json.load(open(na_path)) if os.path.exists(na_path) else {}
claimed = {c["property_id"] for c in checks}
not_app = [{"property_id": i, "reason": na.get(i, "not yet covered by the machinery at this commit (work in progress); no claim is made")} for i in all_ids if i not in claimed]
commits = subprocess.run(["git", "-C", "/repo", "log", "--format=%H %s"], capture_output=True, text=True).stdout.splitlines()
hook_commits = [c.split()[0] for c in commits if c.split(" ", 1)[1].startswith("verif:")]
m = {
    "version": 1,
    "setup_cmd": "./check --setup",
    "hooks": {
        "guard": "verif",
        "enable": "go test -tags verif (harness files and internal/vlib exist only in the scratch copy made by ./check; hooks in /repo are behind //go:build verif)",
        "baseline_off_cmd": "for m in . ./cmd/application ./cmd/registration-server ./util/station-debug; do (cd /repo/$m && go test -json -vet=off -count=1 -timeout 25m ./...); done",
        "source_commits": hook_commits,
        "add_only": True,
    },
    "engines": [{"name": "lean4-proof+correspondence", "path": "/verif/check", "serves_properties": sorted(claimed),
                 "kind_free_text": "Lean 4 model + theorems (lake project /verif/lean), regenerated CJ/Gen tables, Go differential harness against the compiled Lean driver, property oracles on the real code"}],
    "checks": checks,
    "not_applicable": not_app,
    "notes": "See DESIGN.md. known_findings.txt lists recorded findings (known:) and repaired defects (fixed:).",
}
json.dump(m, open(os.path.join(V, "MANIFEST.json"), "w"), indent=1)
print("claimed", sorted(claimed), "unclaimed", [n["property_id"] for n in not_app])
