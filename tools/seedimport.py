#!/usr/bin/env python3
"""Copies confirmed seeded changes from /tmp/seed-out-<prop>/<i>/ (patch.diff, demo, meta.json, result.json of
tools/seedtest.py) into /verif/seeded/<prop>-<i>/ and merges the confirmation + check results into meta.json."""
import json, glob, os, shutil, sys
out = '/verif/seeded'
os.makedirs(out, exist_ok=True)
pat = sys.argv[1] if len(sys.argv) > 1 else '/tmp/seed-out-C*/[0-9]'
if pat == '--local':
    # merge result.json files that tools/seedtest.py left inside /verif/seeded/<id>/ itself
    pat = '/verif/seeded/C*-[0-9]*'
for d in sorted(glob.glob(pat)):
    if d.startswith('/verif/seeded/'):
        name = os.path.basename(d.rstrip('/')); prop = name.split('-')[0]
    else:
        if 'seed5-out-' in d:      # fifth round (twelve properties that had nine): numbered after the first nine
            prop = d.split('seed5-out-')[1].split('/')[0]; i = str(int(d.rstrip('/').split('/')[-1]) + 9)
        elif 'seed4-out-' in d:      # fourth round: numbered after the first nine
            prop = d.split('seed4-out-')[1].split('/')[0]; i = str(int(d.rstrip('/').split('/')[-1]) + 9)
        elif 'seed3-out-' in d:      # third round: numbered after the first six
            prop = d.split('seed3-out-')[1].split('/')[0]; i = str(int(d.rstrip('/').split('/')[-1]) + 6)
        elif 'seed2-out-' in d:      # second round of seeders: numbered after the first three
            prop = d.split('seed2-out-')[1].split('/')[0]; i = str(int(d.rstrip('/').split('/')[-1]) + 3)
        else:
            prop = d.split('seed-out-')[1].split('/')[0]; i = d.rstrip('/').split('/')[-1]
        name = '%s-%s' % (prop, i)
    if not os.path.exists(os.path.join(d, 'meta.json')): continue
    dst = os.path.join(out, name); os.makedirs(dst, exist_ok=True)
    meta = json.load(open(os.path.join(d, 'meta.json')))
    old = {}
    if os.path.exists(os.path.join(dst, 'meta.json')):
        old = json.load(open(os.path.join(dst, 'meta.json')))
    for f in os.listdir(d):
        if f == 'result.json' or os.path.isdir(os.path.join(d, f)) or os.path.abspath(d) == os.path.abspath(dst): continue
        shutil.copy(os.path.join(d, f), dst)
    rp = os.path.join(d, 'result.json')
    res = json.load(open(rp)) if os.path.exists(rp) else None
    meta['seed_id'] = name
    meta['breaks_property'] = meta.get('property', prop)
    for k in ('missed_note', 'history'):
        if k in old: meta[k] = old[k]
    if res:
        conf = {
            'what_was_run': 'tools/seedtest.py: scratch worktree of /repo HEAD; demo on the clean tree; git apply patch.diff; go build ./...; demo with the patch; the unedited baseline suite with the patch (tools/baseline.sh); ./check <property> with VERIF_REPO=<worktree>; worktree removed',
            'demo_passes_on_clean_tree': res.get('demo_clean_rc') == 0,
            'demo_fails_with_patch': res.get('demo_patched_rc') not in (0, None),
            'builds_with_patch': res.get('build_rc') == 0,
            'demo_cmd_used': res.get('demo_cmd_used'),
        }
        if res.get('baseline_rc') is not None:
            conf['baseline_suite_passes_with_patch'] = res.get('baseline_rc') == 0
            if res.get('baseline_rc') != 0: conf['baseline_tail'] = res.get('baseline_tail')
        elif 'confirmation' in old and 'baseline_suite_passes_with_patch' in old['confirmation']:
            conf['baseline_suite_passes_with_patch'] = old['confirmation']['baseline_suite_passes_with_patch']
        meta['confirmation'] = conf
        checks = dict(old.get('checks') or {})
        for p, c in res.get('checks', {}).items():
            checks[p] = {'exit': c['rc'], 'lines': c['lines'], 'wall_s': c['wall_s']}
        meta['checks'] = checks
        meta['detected'] = any(c['exit'] == 1 and any(l.startswith('VIOLATION') for l in c['lines']) for c in checks.values())
        meta['detected_with_replay'] = any(c['exit'] == 1 and any(l.startswith('VIOLATION') and 'no-failing-input-found' not in l for l in c['lines']) for c in checks.values())
    json.dump(meta, open(os.path.join(dst, 'meta.json'), 'w'), indent=1)
    print(name, 'detected' if meta.get('detected') else 'MISSED', 'replay' if meta.get('detected_with_replay') else '-', meta.get('confirmation', {}).get('baseline_suite_passes_with_patch'))
