#!/usr/bin/env python3
"""Regenerates the generated tables of DESIGN.md §10 (repairs, recorded findings, seeded changes)
between the <!-- GEN:… --> markers from known_findings.txt and seeded/*/meta.json."""
import json, glob, os, re
V = os.path.dirname(os.path.dirname(os.path.abspath(__file__)))
known, fixed = [], []
for l in open(os.path.join(V, "known_findings.txt")):
    m = re.match(r"known:\s+property=(\S+)\s+sig=(\S+)\s+(.*)", l)
    if m: known.append(m.groups())
    m = re.match(r"fixed:\s+property=(\S+)\s+(\S+)\s+(.*)", l)
    if m: fixed.append(m.groups())
rep = ["| Prop | commit in /repo | what failed |", "|---|---|---|"] + ["| %s | `%s` | %s |" % f for f in fixed]
kn = ["| Prop | signature | what fails, why recorded |", "|---|---|---|"] + ["| %s | `%s` | %s |" % k for k in known]
seeds = ["| seed | change | needs to manifest | caught by (exit 1) | replay |", "|---|---|---|---|---|"]
for d in sorted(glob.glob(os.path.join(V, "seeded", "*"))):
    mp = os.path.join(d, "meta.json")
    if not os.path.exists(mp): continue
    m = json.load(open(mp))
    caught = []
    for p, c in (m.get("checks") or {}).items():
        for l in c.get("lines", []):
            if l.startswith("VIOLATION"):
                r = re.search(r"replay=\S*/([^/\s]+)", l)
                caught.append("%s: %s%s" % (p, r.group(1).replace(".replay", "") if r else "?", " (no-failing-input-found)" if "no-failing-input-found" in l else ""))
    def short(s, n):
        s = re.sub(r"\s+", " ", str(s)).replace("|", "\\|")
        return s if len(s) <= n else s[:n - 1] + "…"
    if m.get("neutralised_by"):
        seeds.append("| %s | %s | %s | %s | %s |" % (os.path.basename(d), short(m.get("summary", ""), 230), short(m.get("needs_to_manifest", ""), 200),
                     "*no longer a breaking change*: " + short(m["neutralised_by"], 200), "—"))
        continue
    def rank(c):   # own property first, replays before no-failing-input-found
        return (not c.startswith(m.get("property", "?") + ":"), "no-failing-input-found" in c, c)
    caught = sorted(set(caught), key=rank)
    seeds.append("| %s | %s | %s | %s | %s |" % (os.path.basename(d), short(m.get("summary", ""), 230), short(m.get("needs_to_manifest", ""), 200),
                 ("; ".join(caught) if caught else "**missed** " + short(m.get("missed_note", ""), 160)) + (" — *" + short(m["reading"], 300) + "*" if m.get("reading") else ""),
                 "yes" if m.get("detected_with_replay") else ("no" if m.get("detected") else "—")))
p = os.path.join(V, "DESIGN.md")
s = open(p).read()
for tag, lines in (("REPAIRS", rep), ("KNOWN", kn), ("SEEDED", seeds)):
    a, b = "<!-- GEN:%s-BEGIN -->" % tag, "<!-- GEN:%s-END -->" % tag
    if a in s:
        s = s[:s.index(a) + len(a)] + "\n" + "\n".join(lines) + "\n" + s[s.index(b):]
open(p, "w").write(s)
print("repairs", len(fixed), "known", len(known), "seeds", len(seeds) - 2)
