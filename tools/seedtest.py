#!/usr/bin/env python3
"""Confirms a seeded change and runs the checks against it, in a scratch worktree of /repo.

  tools/seedtest.py <seed-dir> [--props C08,C09] [--baseline] [--tier quick]

<seed-dir> holds patch.diff, meta.json (property, demo_pkg_dir, demo_cmd) and the demonstration file(s).
Steps: worktree of /repo HEAD -> demo passes on clean tree -> apply patch -> builds -> demo FAILS ->
(optional) the unedited baseline suite still passes with the patch -> ./check <prop> with VERIF_REPO=<worktree>
must exit 1 with a VIOLATION line -> worktree removed. Prints a JSON summary (also written to <seed-dir>/result.json).
"""
import argparse, glob, json, os, shutil, subprocess, sys, time

V = os.path.dirname(os.path.dirname(os.path.abspath(__file__)))


def sh(cmd, cwd=None, env=None, timeout=3600):
    e = dict(os.environ)
    if env:
        e.update(env)
    p = subprocess.run(cmd, cwd=cwd, env=e, shell=True, stdout=subprocess.PIPE, stderr=subprocess.STDOUT, text=True, errors="replace", timeout=timeout)
    return p.returncode, p.stdout


def goenv(cmd):
    if "cmd/application" in cmd or "cmd/registration-server" in cmd:
        return "env -u GOWORK -u GOFLAGS GOPROXY=off GOSUMDB=off GOTOOLCHAIN=local " + cmd
    return "GOPROXY=off GOSUMDB=off GOTOOLCHAIN=local GOWORK=off GOFLAGS=-mod=mod " + cmd


def main():
    ap = argparse.ArgumentParser()
    ap.add_argument("seed")
    ap.add_argument("--props")
    ap.add_argument("--baseline", action="store_true")
    ap.add_argument("--tier", default="quick")
    ap.add_argument("--keep", action="store_true")
    ap.add_argument("--no-check", action="store_true", help="confirmation only (demo, build, optional baseline); keep earlier check results")
    a = ap.parse_args()
    seed = os.path.abspath(a.seed)
    meta = json.load(open(os.path.join(seed, "meta.json")))
    props = (a.props.split(",") if a.props else [meta["property"]])
    wt = "/var/tmp/seedtest.%d" % os.getpid()
    res = {"seed": seed, "props": props}
    rc, out = sh("git -C /repo worktree add -q --detach %s HEAD" % wt)
    if rc:
        print(out); sys.exit(2)
    try:
        demo_dir = os.path.join(wt, meta.get("demo_pkg_dir", "."))
        demos = [f for f in glob.glob(os.path.join(seed, "*")) if os.path.basename(f) not in ("patch.diff", "meta.json", "result.json") and os.path.isfile(f)]
        def place():
            os.makedirs(demo_dir, exist_ok=True)
            for f in demos:
                shutil.copy(f, demo_dir)
        def unplace():
            for f in demos:
                try: os.remove(os.path.join(demo_dir, os.path.basename(f)))
                except FileNotFoundError: pass
        import re
        m = re.search(r"-run[ =]+'?\"?([^\s'\"]+)", meta["demo_cmd"])
        pat = m.group(1) if m else "Demo"
        extra = " -race" if " -race" in meta["demo_cmd"] else ""
        demo_cmd = goenv("go test -count=1%s -timeout 600s -run '%s' ./%s/" % (extra, pat, meta.get("demo_pkg_dir", ".").strip("./")))
        res["demo_cmd_used"] = demo_cmd
        place()
        rc, out = sh(demo_cmd, cwd=wt)
        res["demo_clean_rc"] = rc
        res["demo_clean_tail"] = out[-600:]
        unplace()
        rc, out = sh("git apply %s || git apply -3 %s" % (os.path.join(seed, "patch.diff"), os.path.join(seed, "patch.diff")), cwd=wt)
        res["apply_rc"] = rc
        if rc:
            res["apply_out"] = out[-800:]
            raise SystemExit
        rc, out = sh(goenv("go build ./..."), cwd=wt)
        res["build_rc"] = rc
        place()
        rc, out = sh(demo_cmd, cwd=wt)
        res["demo_patched_rc"] = rc
        res["demo_patched_tail"] = out[-600:]
        unplace()
        if a.baseline:
            rc, out = sh("%s/tools/baseline.sh %s" % (V, wt))
            if rc != 0:
                # pkg/station/lib's own suite hangs now and then on a loaded machine, also on the clean tree
                # (the whole package then reports nothing): one more try before the patch is blamed
                res["baseline_first_try_tail"] = out[-1500:]
                rc, out = sh("%s/tools/baseline.sh %s" % (V, wt))
            res["baseline_rc"] = rc
            res["baseline_tail"] = out[-6000:]
        res["checks"] = {}
        try:
            prior = json.load(open(os.path.join(seed, "result.json")))
        except Exception:
            prior = {}
        if not a.baseline and "baseline_rc" in prior:
            res["baseline_rc"] = prior["baseline_rc"]
            res["baseline_tail"] = prior.get("baseline_tail", "")
        res["checks"] = dict(prior.get("checks", {}))   # results of properties not run this time are kept
        if a.no_check:
            props = []
        for p in props:
            t = time.time()
            rc, out = sh("./check %s --tier %s" % (p, a.tier), cwd=V, env={"VERIF_REPO": wt})
            lines = [l for l in out.splitlines() if l.startswith("VIOLATION") or l.startswith("KNOWN-FINDING")]
            res["checks"][p] = {"rc": rc, "lines": [l[:300] for l in lines], "wall_s": round(time.time() - t, 1),
                                "broken": [l[:400] for l in out.splitlines() if "BROKEN" in l][:6]}
        res["confirmed"] = (res.get("demo_clean_rc") == 0 and res.get("demo_patched_rc", 0) != 0 and res.get("build_rc") == 0
                            and res.get("baseline_rc", 0) == 0)
        res["baseline_confirmed"] = res.get("baseline_rc") == 0
        res["detected"] = any(c["rc"] == 1 and any(l.startswith("VIOLATION") for l in c["lines"]) for c in res["checks"].values())
        res["detected_with_replay"] = any(c["rc"] == 1 and any(l.startswith("VIOLATION") and "no-failing-input-found" not in l for l in c["lines"]) for c in res["checks"].values())
    finally:
        if not a.keep:
            sh("git -C /repo worktree remove --force %s" % wt)
        json.dump(res, open(os.path.join(seed, "result.json"), "w"), indent=1)
        print(json.dumps(res, indent=1))


if __name__ == "__main__":
    main()
