#!/bin/bash
# Runs the repository's pinned test suite (guard OFF) on a scratch copy of /repo's working tree
# (or on the directory given as $1) and compares with /root/.vp/BASELINE.json stable_pass.
# usage: tools/baseline.sh [repo-dir]   exit 0 iff every stable test passes
set -u
# one run at a time: regprocessor's TestZMQAuth binds a fixed 127.0.0.1 port, two concurrent runs hang
# BASELINE_NETNS=1: run inside a private network namespace (own loopback, own abstract sockets) instead of
# serialising, so several runs can go side by side
if [ "${BASELINE_NETNS:-0}" = 1 ] && [ -z "${BASELINE_IN_NS:-}" ]; then
  exec env BASELINE_IN_NS=1 unshare -n bash -c 'ip link set lo up; exec "$0" "$@"' "$0" "$@"
fi
if [ -z "${BASELINE_IN_NS:-}" ]; then
  exec 9>/var/tmp/baseline.lock
  flock 9
fi
SRC=${1:-/repo}
S=$(mktemp -d /var/tmp/cjv.baseline.XXXXXX)
trap 'rm -rf "$S"' EXIT
rsync -a --exclude .git --exclude paper "$SRC"/ "$S/repo/"
export GOPROXY=off GOSUMDB=off GOTOOLCHAIN=local
LOG=$S/log.json
for m in . ./cmd/application ./cmd/registration-server ./util/station-debug; do
  (cd "$S/repo/$m" && go test -json -vet=off -count=1 -timeout 25m ./... ) >> "$LOG" 2>&1
done
python3 - "$LOG" <<'PY'
import json,sys
res={}; pkgout={}; pkgfail=[]
for l in open(sys.argv[1],errors='replace'):
    try: e=json.loads(l)
    except Exception:
        pkgout.setdefault('?',[]).append(l.rstrip()); continue
    if not e.get('Test'):
        if e.get('Action')=='output': pkgout.setdefault(e.get('Package','?'),[]).append(e.get('Output','').rstrip())
        if e.get('Action')=='fail': pkgfail.append(e.get('Package','?'))
    if e.get('Test') and e.get('Action') in('pass','fail','skip'):
        res[e['Package']+'::'+e['Test']]=e['Action']
base=json.load(open('/root/.vp/BASELINE.json'))
missing=[t for t in base['stable_pass'] if res.get(t)!='pass']
print('passed',sum(1 for v in res.values() if v=='pass'),'failed',sorted(k for k,v in res.items() if v=='fail'))
print('stable_pass not passing:',missing)
for p in pkgfail+(['?'] if missing else []):
    print('package-level output of',p,':'); print('\n'.join(pkgout.get(p,[])[-25:]))
sys.exit(1 if missing else 0)
PY
